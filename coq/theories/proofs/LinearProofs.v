(* proofs/LinearProofs.v — C05: an accepted body satisfies the path-counting discipline of
   spec/Linear.v.  One induction over the checker (Tc.tc_form and its two branch functions) with the
   invariant "the name bound for the provider is not a key of the context". *)
Require Import Grits.Base Grits.ModeDefs Grits.Modes Grits.STypes Grits.Forms Grits.Subst Grits.Infer
               Grits.TcDeps Grits.Expand Grits.Tc Grits.spec.Linear Grits.proofs.TcInv.

Definition ind {V} (x : string) (g : list (string * V)) : nat := if amem x g then 1 else 0.
Definition shid (sh : option name) : option string := option_map ident sh.
Definition shf {V} (g : list (string * V)) (s : option string) : Prop :=
  match s with Some z => amem z g = false | None => True end.
Definition same {V} (live : list string) (g : list (string * V)) : Prop := forall z, str_mem z live = amem z g.

Lemma is_provider_prov n sh : is_provider n sh = prov_ref (shid sh) n.
Proof. destruct sh; reflexivity. Qed.

Ltac sdec :=
  repeat match goal with
  | |- context [String.eqb ?a ?b] => destruct (String.eqb_spec a b); subst; cbn
  | H : context [String.eqb ?a ?b] |- _ => destruct (String.eqb_spec a b); subst; cbn in H
  end.

(* ---------- AllEq ---------- *)
Lemma AllEq_one c : AllEq c [c].
Proof. repeat constructor. Qed.
Lemma AllEq_addl a c l : AllEq c l -> AllEq (a + c) (addl a l).
Proof. unfold AllEq, addl. intros H. apply Forall_map. eapply Forall_impl; [|exact H]. cbn; intros; subst; auto. Qed.
Lemma AllEq_zeros l : AllEq 0 (zeros l).
Proof. unfold AllEq, zeros. apply Forall_map. apply Forall_forall; auto. Qed.
Lemma AllEq_app c l1 l2 : AllEq c l1 -> AllEq c l2 -> AllEq c (l1 ++ l2).
Proof. unfold AllEq. intros. apply Forall_app; auto. Qed.
Lemma AllEq_nil c : AllEq c [].
Proof. constructor. Qed.
Lemma AllEq_cross a b l1 l2 : AllEq a l1 -> AllEq b l2 -> AllEq (a + b) (cross l1 l2).
Proof.
  unfold cross. intros H1 H2. induction H1; cbn; [constructor|].
  subst. apply AllEq_app; auto. apply AllEq_addl; auto.
Qed.
Lemma AllEq_cast c c' l : c = c' -> AllEq c l -> AllEq c' l.
Proof. intros ->; auto. Qed.

(* ---------- counting in association lists ---------- *)
Lemma ind_aremove {V} x y (g : list (string * V)) : ind x (aremove y g) = if String.eqb x y then 0 else ind x g.
Proof. unfold ind. rewrite amem_aremove. destruct (String.eqb x y); reflexivity. Qed.
Lemma ind_aset {V} x y (v : V) g : ind x (aset y v g) = if String.eqb x y then 1 else ind x g.
Proof. unfold ind. rewrite amem_aset. destruct (String.eqb x y); reflexivity. Qed.
Lemma ind_nil {V} x : ind x (@nil (string * V)) = 0.
Proof. reflexivity. Qed.
Lemma ind_le {V} x (g : list (string * V)) : ind x g <= 1.
Proof. unfold ind. destruct (amem x g); lia. Qed.
Lemma ind_true {V} x (g : list (string * V)) : amem x g = true -> ind x g = 1.
Proof. unfold ind. intros ->; auto. Qed.
Lemma ind_false {V} x (g : list (string * V)) : amem x g = false -> ind x g = 0.
Proof. unfold ind. intros ->; auto. Qed.
Lemma ind_0 {V} x (g : list (string * V)) : ind x g = 0 -> amem x g = false.
Proof. unfold ind. destruct (amem x g); auto; discriminate. Qed.
Lemma ind_1 {V} x (g : list (string * V)) : ind x g = 1 -> amem x g = true.
Proof. unfold ind. destruct (amem x g); auto; discriminate. Qed.

Lemma shf_aremove {V} (g : list (string * V)) s y : shf g s -> shf (aremove y g) s.
Proof. destruct s; cbn; auto. intros H. rewrite amem_aremove, H. apply andb_false_r. Qed.

Lemma occ_nonprov sh x n : prov_ref sh n = false -> occ sh x n = if String.eqb (ident n) x then 1 else 0.
Proof. unfold occ. intros ->; auto. Qed.
Lemma occ_prov sh x n : prov_ref sh n = true -> occ sh x n = 0.
Proof. unfold occ. intros ->; auto. Qed.

(* a successful lookup of a non-self name is a use of a context name: the name cannot be spelled
   like the provider, because the provider's name is not a key *)
Lemma lookup_cnt {V} n (g : list (string * V)) t sh :
  is_self n = false -> alookup (ident n) g = Some t -> shf g sh ->
  prov_ref sh n = false /\ (forall x, ind x g = occ sh x n + ind x (aremove (ident n) g)).
Proof.
  intros Hs Hl Hf. apply alookup_amem in Hl.
  assert (Hp : prov_ref sh n = false).
  { unfold prov_ref. rewrite Hs. cbn. destruct sh as [z|]; auto. cbn in Hf.
    destruct (String.eqb_spec (ident n) z); auto. subst. congruence. }
  split; auto. intros x. rewrite (occ_nonprov _ _ _ Hp), ind_aremove.
  rewrite (String.eqb_sym x). destruct (String.eqb_spec (ident n) x); subst; auto.
  now rewrite (ind_true _ _ Hl).
Qed.

Lemma consume_cnt n g t g1 sh :
  consume n g = TOk (t, g1) -> shf g sh ->
  prov_ref sh n = false /\ g1 = aremove (ident n) g /\ (forall x, ind x g = occ sh x n + ind x g1) /\ shf g1 sh.
Proof.
  intros H Hf. apply consume_ok in H. destruct H as (Hs & Hl & ->).
  destruct (lookup_cnt _ _ _ _ Hs Hl Hf) as (Hp & Hc). repeat split; auto. now apply shf_aremove.
Qed.

Lemma consume_opt_cnt n g t g1 sh :
  consume_opt n g = (Some t, g1) -> shf g sh ->
  prov_ref sh n = false /\ g1 = aremove (ident n) g /\ (forall x, ind x g = occ sh x n + ind x g1) /\ shf g1 sh.
Proof.
  intros H Hf. apply consume_opt_some in H. destruct H as (Hs & Hl & ->).
  destruct (lookup_cnt _ _ _ _ Hs Hl Hf) as (Hp & Hc). repeat split; auto. now apply shf_aremove.
Qed.

Lemma cms_cnt n sh g pty t g1 :
  consume_maybe_self n sh g pty = TOk (t, g1) -> shf g (shid sh) ->
  (forall x, ind x g = occ (shid sh) x n + ind x g1) /\ shf g1 (shid sh).
Proof.
  unfold consume_maybe_self. intros H Hf.
  destruct (is_self n) eqn:Hs.
  { inversion H; subst. split; auto. intros x. rewrite occ_prov; auto. unfold prov_ref. now rewrite Hs. }
  destruct sh as [s|]; cbn [shid option_map] in *.
  - destruct (String.eqb_spec (ident s) (ident n)) as [e|ne].
    + inversion H; subst. split; auto. intros x. rewrite occ_prov; auto.
      unfold prov_ref. rewrite e, String.eqb_refl. apply orb_true_r.
    + destruct (alookup (ident n) g) eqn:Hl; try discriminate. inversion H; subst.
      destruct (lookup_cnt _ _ _ _ Hs Hl Hf) as (Hp & Hc). split; auto. now apply shf_aremove.
  - destruct (alookup (ident n) g) eqn:Hl; try discriminate. inversion H; subst.
    destruct (lookup_cnt n g _ None Hs Hl I) as (Hp & Hc). split; auto.
Qed.

Lemma cmso_cnt n sh g pty t g1 :
  consume_maybe_self_opt n sh g pty = (Some t, g1) -> shf g (shid sh) ->
  (forall x, ind x g = occ (shid sh) x n + ind x g1) /\ shf g1 (shid sh).
Proof.
  unfold consume_maybe_self_opt. intros H Hf.
  destruct (is_self n) eqn:Hs.
  { inversion H; subst. split; auto. intros x. rewrite occ_prov; auto. unfold prov_ref. now rewrite Hs. }
  destruct sh as [s|]; cbn [shid option_map] in *.
  - destruct (String.eqb_spec (ident s) (ident n)) as [e|ne].
    + inversion H; subst. split; auto. intros x. rewrite occ_prov; auto.
      unfold prov_ref. rewrite e, String.eqb_refl. apply orb_true_r.
    + destruct (alookup (ident n) g) eqn:Hl; try discriminate. inversion H; subst.
      destruct (lookup_cnt _ _ _ _ Hs Hl Hf) as (Hp & Hc). split; auto. now apply shf_aremove.
  - destruct (alookup (ident n) g) eqn:Hl; try discriminate. inversion H; subst.
    destruct (lookup_cnt n g _ None Hs Hl I) as (Hp & Hc). split; auto.
Qed.

(* the context split of a cut hands over exactly the requested names, once each *)
Lemma split_gamma_cnt D ns : forall g acc gl gr,
  split_gamma D g ns acc = TOk (gl, gr) -> forall x, ind x g = sum_occ None x ns + ind x gr.
Proof.
  induction ns as [|n r IH]; intros g acc gl gr H x; cbn in H.
  - inversion H; subst. reflexivity.
  - cbn [sum_occ fold_right]. destruct (is_self n) eqn:Hs.
    + rewrite occ_prov by (unfold prov_ref; now rewrite Hs). now apply (IH _ _ _ _ H).
    + destruct (consume_opt n g) as [[t|] g'] eqn:Hc; try discriminate.
      apply tbind_ok in H. destruct H as (t' & _ & H).
      destruct (consume_opt_cnt _ _ _ _ None Hc I) as (_ & _ & Hcnt & _).
      rewrite Hcnt. rewrite (IH _ _ _ _ H x). fold (sum_occ None x r). lia.
Qed.

Lemma tc_args_cnt D : forall args g ps args' g1 sh,
  tc_args D g args ps = TOk (args', g1) -> shf g sh ->
  (forall x, ind x g = sum_occ sh x args + ind x g1).
Proof.
  induction args as [|a r IH]; intros g ps args' g1 sh H Hf x; cbn in H.
  - inversion H; subst. reflexivity.
  - destruct ps as [|p pr]; try discriminate. tinv H.
    match goal with Hc : consume a g = TOk _ |- _ => destruct (consume_cnt _ _ _ _ sh Hc Hf) as (_ & _ & Hcnt & Hf1) end.
    match goal with Hr : tc_args D _ r pr = TOk _ |- _ => specialize (IH _ _ _ _ sh Hr Hf1 x) end.
    inversion H; subst. cbn [sum_occ fold_right]. fold (sum_occ sh x r). rewrite Hcnt, IH. lia.
Qed.

(* ---------- live sets ---------- *)
Lemma str_mem_remove z x l : str_mem z (remove x l) = negb (String.eqb z x) && str_mem z l.
Proof.
  unfold remove. induction l as [|y r IH]; cbn.
  - now rewrite andb_false_r.
  - destruct (String.eqb_spec y x); subst; cbn.
    + rewrite IH. destruct (String.eqb_spec z x); cbn; auto.
    + rewrite IH. destruct (String.eqb_spec z y); subst; cbn.
      * destruct (String.eqb_spec y x); cbn; auto. congruence.
      * reflexivity.
Qed.
Lemma str_mem_filter z p l : str_mem z (filter p l) = p z && str_mem z l.
Proof.
  induction l as [|y r IH]; cbn.
  - now rewrite andb_false_r.
  - destruct (p y) eqn:Ep; cbn; rewrite IH.
    + destruct (String.eqb_spec z y); subst; cbn; [now rewrite Ep|reflexivity].
    + destruct (String.eqb_spec z y); subst; cbn; [now rewrite Ep|reflexivity].
Qed.
Lemma same_remove {V} live (g : list (string * V)) x : same live g -> same (remove x live) (aremove x g).
Proof. intros H z. now rewrite str_mem_remove, amem_aremove, H. Qed.
Lemma same_cons {V} live (g : list (string * V)) x v : same live g -> same (x :: live) (aset x v g).
Proof. intros H z. cbn. now rewrite amem_aset, H. Qed.

Lemma name_equal_uninit a b : uninit a = true -> uninit b = true -> name_equal a b = String.eqb (ident a) (ident b).
Proof.
  unfold uninit, name_equal, initialized. destruct (chan a), (chan b); try discriminate. intros _ _.
  cbn. now rewrite andb_true_r.
Qed.

(* ---------- axioms: purely syntactic facts ---------- *)
Lemma sum_occ_app sh x a b : sum_occ sh x (a ++ b) = sum_occ sh x a + sum_occ sh x b.
Proof. unfold sum_occ. induction a; cbn; auto. rewrite IHa. lia. Qed.
Lemma sum_occ_nonself x ns : sum_occ None x (nonself ns) = sum_occ None x ns.
Proof.
  unfold sum_occ, nonself. induction ns as [|n r IH]; cbn; auto.
  destruct (is_self n) eqn:E; cbn; rewrite IH; auto.
  unfold occ, prov_ref. rewrite E. reflexivity.
Qed.
Lemma sum_occ_append x n l : sum_occ None x (append_if_not_self n l) = sum_occ None x l + occ None x n.
Proof.
  unfold append_if_not_self. destruct (is_self n) eqn:E.
  - unfold occ, prov_ref. rewrite E. cbn. lia.
  - rewrite sum_occ_app. cbn. lia.
Qed.

(* in a form without continuation the consuming occurrences are the free names *)
Lemma axiom_uses f x : has_continuation f = false -> uses None x f = [sum_occ None x (free_names f)].
Proof.
  destruct f; intros Hc; try discriminate Hc; cbn [uses free_names];
    rewrite ?sum_occ_append; try (cbn; f_equal; lia).
  rewrite fold_append_nonself. cbn [app]. now rewrite sum_occ_nonself.
Qed.
Lemma axiom_bound_once f sh : has_continuation f = false -> bound_once sh f.
Proof. destruct f; intros Hc; try discriminate Hc; exact I. Qed.
Lemma axiom_binders_fresh f live sh : has_continuation f = false -> binders_fresh live sh f.
Proof. destruct f; intros Hc; try discriminate Hc; exact I. Qed.

Lemma name_in_names_cnt x ns :
  uninit x = true -> forallb uninit ns = true -> name_in_names x ns = true -> (forall n, In n ns -> is_self n = false) ->
  1 <= sum_occ None (ident x) ns.
Proof.
  intros Hx. induction ns as [|n r IH]; cbn; intros Hu Hin Hns; try discriminate.
  apply andb_prop in Hu. destruct Hu as (Hn & Hr).
  destruct (name_equal x n) eqn:E.
  - rewrite name_equal_uninit in E by auto. apply String.eqb_eq in E.
    unfold occ, prov_ref. rewrite (Hns n (or_introl eq_refl)). cbn. rewrite <- E, String.eqb_refl. lia.
  - cbn in Hin. specialize (IH Hr Hin (fun n' H' => Hns n' (or_intror H'))). fold (sum_occ None (ident x) r). lia.
Qed.

Lemma axiom_free_nonself f n : has_continuation f = false -> In n (free_names f) -> is_self n = false.
Proof.
  intros Hc Hin. rewrite <- (nonself_free_names_axiom _ Hc) in Hin. unfold nonself in Hin.
  apply filter_In in Hin. destruct Hin as (_ & Hn). now destruct (is_self n).
Qed.

Lemma forallb_append p n l : p n = true -> forallb p l = true -> forallb p (append_if_not_self n l) = true.
Proof.
  unfold append_if_not_self. intros Hn Hl. destruct (is_self n); auto.
  rewrite forallb_app, Hl. cbn. now rewrite Hn.
Qed.

Lemma forallb_nonself p l : forallb p l = true -> forallb p (nonself l) = true.
Proof.
  unfold nonself. induction l as [|a r IH]; cbn; auto. intros H. apply andb_prop in H. destruct H as (Ha & Hr).
  destruct (is_self a); cbn; auto. now rewrite Ha, IH.
Qed.

Lemma axiom_free_uninit f : has_continuation f = false -> uninit_form f = true -> forallb uninit (free_names f) = true.
Proof.
  destruct f; intros Hc Hu; try discriminate Hc; cbn [free_names uninit_form] in *;
    repeat match goal with H : _ && _ = true |- _ => apply andb_prop in H; destruct H end;
    repeat (apply forallb_append; auto).
  rewrite fold_append_nonself. cbn [app]. now apply forallb_nonself.
Qed.

(* ---------- the main induction ---------- *)
Definition good (g : ctx) (sh : option string) (f : form) : Prop :=
  (forall x, AllEq (ind x g) (uses sh x f)) /\ bound_once sh f /\
  (forall live, same live g -> binders_fresh live sh f).
Definition good_bp (g : ctx) (bs : branches) : Prop :=
  (forall x, AllEq (ind x g) (uses_bp x bs)) /\ bound_once_bp bs /\
  (forall live, same live g -> binders_fresh_bp live bs).
Definition good_bc (g : ctx) (sh : option string) (bs : branches) : Prop :=
  (forall x, AllEq (ind x g) (uses_bc sh x bs)) /\ bound_once_bc sh bs /\
  (forall live, same live g -> binders_fresh_bc live sh bs).


Lemma fresh2 (g : ctx) a b : negb (ctx_has g a || ctx_has g b) = true -> amem a g = false /\ amem b g = false.
Proof. unfold ctx_has. destruct (amem a g), (amem b g); cbn; intros; try discriminate; auto. Qed.
Lemma fresh1 (g : ctx) a : negb (ctx_has g a) = true -> amem a g = false.
Proof. unfold ctx_has. destruct (amem a g); cbn; intros; try discriminate; auto. Qed.
Lemma differ_of a b : uninit a = true -> uninit b = true -> negb (name_equal a b) = true -> ident a <> ident b.
Proof. intros Ha Hb H. rewrite name_equal_uninit in H by auto. destruct (String.eqb_spec (ident a) (ident b)); auto; discriminate. Qed.
Lemma ind_aset_same {V} x (v : V) g : ind x (aset x v g) = 1.
Proof. rewrite ind_aset, String.eqb_refl. reflexivity. Qed.
Lemma ind_aset_other {V} x y (v : V) g : x <> y -> ind x (aset y v g) = ind x g.
Proof. intros H. rewrite ind_aset. destruct (String.eqb_spec x y); congruence. Qed.
Lemma AllEq_hide c bs x l : (binds bs x = true -> c = 0) -> (binds bs x = false -> AllEq c l) -> AllEq c (hide bs x l).
Proof. unfold hide. destruct (binds bs x); intros H0 H1; auto. rewrite H0 by auto. apply AllEq_zeros. Qed.
Lemma binds1 p x : binds [p] x = String.eqb (ident p) x.
Proof. unfold binds. cbn. apply orb_false_r. Qed.
Lemma binds2 p c x : binds [p; c] x = String.eqb (ident p) x || String.eqb (ident c) x.
Proof. unfold binds. cbn. now rewrite orb_false_r. Qed.
Lemma prov_false_neq sh n z : prov_ref sh n = false -> sh = Some z -> ident n <> z.
Proof. unfold prov_ref. intros H ->. apply orb_false_iff in H. destruct H as (_ & H). destruct (String.eqb_spec (ident n) z); auto; discriminate. Qed.
Lemma shf_aset {V} (g : list (string * V)) sh n v : shf g sh -> prov_ref sh n = false -> shf (aset (ident n) v g) sh.
Proof.
  destruct sh as [z|]; cbn; auto. intros Hf Hp. rewrite amem_aset, Hf.
  pose proof (prov_false_neq _ _ _ Hp eq_refl). destruct (String.eqb_spec z (ident n)); auto. congruence.
Qed.
Lemma orb_false2 a b : a || b = false -> a = false /\ b = false.
Proof. destruct a, b; auto. Qed.

Ltac prep H := cbn [tc_form tc_branches_provider tc_branches_client] in H; rewrite ?is_provider_prov in H.
Ltac norm :=
  repeat match goal with
  | u : unit |- _ => destruct u
  | G : guard _ _ = TOk _ |- _ => apply guard_ok in G
  | G : linear_gamma _ = TOk _ |- _ => apply linear_gamma_ok in G
  | H : consume_opt _ _ = (?o, _), G : match ?o with Some _ => true | None => false end = true |- _ =>
      destruct o; [clear G | discriminate G]
  | H : consume_maybe_self_opt _ _ _ _ = (?o, _), G : match ?o with Some _ => true | None => false end = true |- _ =>
      destruct o; [clear G | discriminate G]
  end.
Ltac one := eapply AllEq_cast; [|apply AllEq_one].

Lemma tc_linear_main D Sg :
  (forall f g sh pty f', uninit_form f = true -> shf g (shid sh) ->
     tc_form D Sg g sh pty f = TOk f' -> good g (shid sh) f) /\
  (forall bs,
     (forall g tbs seen r, uninit_brs bs = true ->
        tc_branches_provider D Sg g tbs seen bs = TOk r -> good_bp g bs) /\
     (forall g sh pty tbs seen r, uninit_brs bs = true -> shf g (shid sh) ->
        tc_branches_client D Sg g sh pty tbs seen bs = TOk r -> good_bc g (shid sh) bs)).
Proof.
  apply form_branches_ind.
  - (* FSend *)
    intros a b c g sh pty f' Hu Hf H. prep H. tinv H; norm.
    + (* provider a *)
      match goal with Hb : consume_opt b g = _ |- _ => destruct (consume_opt_cnt _ _ _ _ _ Hb Hf) as (_ & _ & Hcb & Hf1) end.
      match goal with Hc : consume_opt c _ = _ |- _ => destruct (consume_opt_cnt _ _ _ _ _ Hc Hf1) as (_ & _ & Hcc & _) end.
      subst. repeat split; try exact I.
      intros x. cbn [uses]. rewrite (occ_prov _ _ a) by assumption. rewrite Hcb, Hcc, ind_nil. one. lia.
    + (* provider c *)
      match goal with Ha : consume a g = _ |- _ => destruct (consume_cnt _ _ _ _ _ Ha Hf) as (_ & _ & Hca & Hf1) end.
      match goal with Hb : consume_opt b _ = _ |- _ => destruct (consume_opt_cnt _ _ _ _ _ Hb Hf1) as (_ & _ & Hcb & Hf2) end.
      match goal with Hc : consume_maybe_self_opt c _ _ _ = _ |- _ => destruct (cmso_cnt _ _ _ _ _ _ Hc Hf2) as (Hcc & _) end.
      subst. repeat split; try exact I.
      intros x. cbn [uses]. rewrite Hca, Hcb, Hcc, ind_nil. one. lia.
  - (* FRecv *)
    intros pay cont from k IHk g sh pty f' Hu Hf H.
    cbn [uninit_form] in Hu. apply andb_prop in Hu; destruct Hu as (Hu & Huk).
    apply andb_prop in Hu; destruct Hu as (Hu & Huf). apply andb_prop in Hu; destruct Hu as (Hup & Huc).
    prep H. tinv H; norm.
    + (* ImpR *)
      match goal with G : negb (ctx_has _ _ || ctx_has _ _) = true |- _ => apply fresh2 in G; destruct G as (Fp & Fc) end.
      match goal with G : negb (name_equal _ _) = true |- _ => apply (differ_of _ _ Hup Huc) in G; rename G into Dpc end.
      match goal with Hk : tc_form _ _ ?g1 ?s1 _ k = TOk _ |- _ =>
        assert (Hf1 : shf g1 (shid s1))
          by (cbn; rewrite amem_aset, Fc; destruct (String.eqb_spec (ident cont) (ident pay)); auto; congruence);
        destruct (IHk _ _ _ _ Huk Hf1 Hk) as (I1 & I2 & I3) end.
      cbn [shid option_map set_nty ident] in I1, I2, I3.
      unfold good. cbn [uses bound_once binders_fresh].
      match goal with Hq : prov_ref _ from = true |- _ => rewrite Hq end.
      split; [|split].
      * intros x. apply AllEq_hide; rewrite binds1; intros Hb.
        { apply String.eqb_eq in Hb; subst x. now apply ind_false. }
        { specialize (I1 x). rewrite ind_aset_other in I1; auto. apply String.eqb_neq in Hb. congruence. }
      * split; auto. specialize (I1 (ident pay)). now rewrite ind_aset_same in I1.
      * intros live Hs. unfold fresh. rewrite !Hs. repeat split; auto. apply I3. now apply same_cons.
    + (* MulL *)
      match goal with Hq : prov_ref _ pay || prov_ref _ cont = false |- _ => apply orb_false2 in Hq; destruct Hq as (Pp & Pc) end.
      match goal with Hc : consume from g = TOk _ |- _ => destruct (consume_cnt _ _ _ _ _ Hc Hf) as (Hp & -> & Hcnt & Hf1) end.
      match goal with G : negb (ctx_has _ _ || ctx_has _ _) = true |- _ => apply fresh2 in G; destruct G as (Fp & Fc) end.
      match goal with G : negb (name_equal _ _) = true |- _ => apply (differ_of _ _ Hup Huc) in G; rename G into Dpc end.
      match goal with Hk : tc_form _ _ ?g2 _ _ k = TOk _ |- _ =>
        assert (Hf2 : shf g2 (shid sh)) by (apply shf_aset; auto; apply shf_aset; auto);
        destruct (IHk _ _ _ _ Huk Hf2 Hk) as (I1 & I2 & I3) end.
      unfold good. cbn [uses bound_once binders_fresh].
      match goal with Hq : prov_ref _ from = false |- _ => rewrite Hq end.
      split; [|split].
      * intros x. rewrite Hcnt. apply AllEq_addl. apply AllEq_hide; rewrite binds2; intros Hb.
        { apply orb_true_iff in Hb. destruct Hb as [Hb|Hb]; apply String.eqb_eq in Hb; subst x; now apply ind_false. }
        { apply orb_false2 in Hb. destruct Hb as (Hb1 & Hb2). apply String.eqb_neq in Hb1, Hb2.
          specialize (I1 x). rewrite !ind_aset_other in I1; auto. }
      * repeat split; auto.
        { specialize (I1 (ident pay)). rewrite ind_aset_other, ind_aset_same in I1; auto. }
        { specialize (I1 (ident cont)). now rewrite ind_aset_same in I1. }
      * intros live Hs. pose proof (same_remove _ _ (ident from) Hs) as Hs'.
        unfold fresh, not_prov. rewrite !Hs'. repeat split; auto. apply I3. now apply same_cons, same_cons.
  - (* FSel *)
    intros a l c g sh pty f' Hu Hf H. prep H. tinv H; norm.
    + match goal with Hc : consume c g = _ |- _ => destruct (consume_cnt _ _ _ _ _ Hc Hf) as (_ & _ & Hcc & _) end.
      subst. repeat split; try exact I.
      intros x. cbn [uses]. rewrite (occ_prov _ _ a) by assumption. rewrite Hcc, ind_nil. one. lia.
    + match goal with Ha : consume a g = _ |- _ => destruct (consume_cnt _ _ _ _ _ Ha Hf) as (_ & _ & Hca & Hf1) end.
      match goal with Hc : consume_maybe_self c _ _ _ = _ |- _ => destruct (cms_cnt _ _ _ _ _ _ Hc Hf1) as (Hcc & _) end.
      subst. repeat split; try exact I.
      intros x. cbn [uses]. rewrite Hca, Hcc, ind_nil. one. lia.
  - (* FCase *)
    intros from bs [IHp IHc] g sh pty f' Hu Hf H.
    cbn [uninit_form] in Hu. apply andb_prop in Hu; destruct Hu as (Huf & Hub).
    rewrite tc_form_case_eq, ?is_provider_prov in H. tinv H; norm.
    + match goal with Hb : tc_branches_provider _ _ _ _ _ bs = TOk _ |- _ => destruct (IHp _ _ _ _ Hub Hb) as (I1 & I2 & I3) end.
      unfold good. cbn [uses bound_once binders_fresh].
      match goal with Hq : prov_ref _ from = true |- _ => rewrite Hq end.
      exact (conj I1 (conj I2 I3)).
    + match goal with Hc : consume from g = TOk _ |- _ => destruct (consume_cnt _ _ _ _ _ Hc Hf) as (Hp & -> & Hcnt & Hf1) end.
      match goal with Hb : tc_branches_client _ _ _ _ _ _ _ bs = TOk _ |- _ => destruct (IHc _ _ _ _ _ _ Hub Hf1 Hb) as (I1 & I2 & I3) end.
      unfold good. cbn [uses bound_once binders_fresh].
      match goal with Hq : prov_ref _ from = false |- _ => rewrite Hq end.
      split; [|split]; auto.
      * intros x. rewrite Hcnt. apply AllEq_addl, I1.
      * intros live Hs. apply I3. now apply same_remove.
  - (* FNew *)
    intros y body _ k IHk g sh pty f' Hu Hf H.
    cbn [uninit_form] in Hu. apply andb_prop in Hu; destruct Hu as (Hu & Huk). apply andb_prop in Hu; destruct Hu as (Huy & Hub).
    apply tc_new_inv in H.
    destruct H as (Hp & Hc & Hr & ns & gl & gr0 & bt & xs & tk & gr & b' & k' & Hs & Hns & _ & _ & _ & _ & Hgr & _ & Hk & _).
    rewrite is_provider_prov in Hp.
    pose proof (split_gamma_cnt _ _ _ _ _ _ Hs) as Hcnt.
    assert (Hcnt' : forall x, ind x g = sum_occ None x (free_names body) + ind x gr0).
    { intros x. rewrite Hcnt, <- Hns, sum_occ_nonself. reflexivity. }
    assert (Hy0 : amem (ident y) gr0 = false).
    { apply ind_0. specialize (Hcnt' (ident y)). unfold ctx_has in Hr.
      destruct (amem (ident y) g) eqn:Ey.
      - symmetry in Hr. apply name_in_names_cnt in Hr; auto.
        + rewrite (ind_true _ _ Ey) in Hcnt'. lia.
        + now apply axiom_free_uninit.
        + intros n Hn. now apply (axiom_free_nonself body).
      - rewrite (ind_false _ _ Ey) in Hcnt'. lia. }
    assert (Hgk : forall z, amem z (aset (ident y) tk gr) = String.eqb z (ident y) || amem z gr0).
    { intros z. rewrite amem_aset. destruct Hgr as [->|(t & ->)]; auto. rewrite amem_aset. now destruct (String.eqb z (ident y)). }
    assert (Hle : forall z, amem z gr0 = true -> amem z g = true).
    { intros z Hz. apply ind_1. specialize (Hcnt' z). rewrite (ind_true _ _ Hz) in Hcnt'. pose proof (ind_le z g). lia. }
    assert (Hfk : shf (aset (ident y) tk gr) (shid sh)).
    { destruct (shid sh) as [z|] eqn:Es; cbn; auto. rewrite Hgk.
      pose proof (prov_false_neq _ _ _ Hp eq_refl) as Hne. cbn in Hf.
      destruct (String.eqb_spec z (ident y)); [congruence|]. cbn.
      destruct (amem z gr0) eqn:Ez; auto. apply Hle in Ez. congruence. }
    destruct (IHk _ _ _ _ Huk Hfk Hk) as (I1 & I2 & I3).
    assert (Hindk : forall x, ind x (aset (ident y) tk gr) = if String.eqb x (ident y) then 1 else ind x gr0).
    { intros x. unfold ind. rewrite Hgk. now destruct (String.eqb x (ident y)). }
    unfold good. cbn [uses bound_once binders_fresh]. split; [|split].
    + intros x. rewrite (axiom_uses _ _ Hc). cbn [cross flat_map]. rewrite app_nil_r. rewrite Hcnt'.
      apply AllEq_addl. apply AllEq_hide; rewrite binds1; intros Hb.
      * apply String.eqb_eq in Hb; subst x. now apply ind_false.
      * specialize (I1 x). rewrite Hindk in I1. rewrite String.eqb_sym, Hb in I1. exact I1.
    + split; [now apply axiom_bound_once|]. split; auto.
      specialize (I1 (ident y)). now rewrite Hindk, String.eqb_refl in I1.
    + intros live Hsame.
      assert (Hrest : forall z, str_mem z (filter (fun z => negb (used_in None body z)) live) = amem z gr0).
      { intros z. rewrite str_mem_filter, Hsame. unfold used_in. rewrite (axiom_uses _ _ Hc). cbn [existsb].
        rewrite orb_false_r. specialize (Hcnt' z). unfold ind in *.
        destruct (amem z g), (amem z gr0), (sum_occ None z (free_names body)) as [|[|n]]; cbn in *; auto; lia. }
      repeat split; auto.
      * unfold fresh. now rewrite Hrest.
      * now apply axiom_binders_fresh.
      * apply I3. intros z. cbn [str_mem]. now rewrite Hrest, Hgk.
  - (* FClose *)
    intros c g sh pty f' Hu Hf H. prep H. tinv H; norm. subst.
    repeat split; try exact I. intros x. cbn [uses]. rewrite occ_prov by assumption. rewrite ind_nil. apply AllEq_one.
  - (* FWait *)
    intros c k IHk g sh pty f' Hu Hf H.
    cbn [uninit_form] in Hu. apply andb_prop in Hu; destruct Hu as (Huc & Huk).
    prep H. tinv H; norm.
    match goal with Hc : consume c g = TOk _ |- _ => destruct (consume_cnt _ _ _ _ _ Hc Hf) as (Hp & -> & Hcnt & Hf1) end.
    match goal with Hk : tc_form _ _ _ _ _ k = TOk _ |- _ => destruct (IHk _ _ _ _ Huk Hf1 Hk) as (I1 & I2 & I3) end.
    split; [|split].
    + intros x. cbn [uses]. rewrite Hcnt. apply AllEq_addl, I1.
    + exact I2.
    + intros live Hs. cbn [binders_fresh]. apply I3. now apply same_remove.
  - (* FFwd *)
    intros a b d g sh pty f' Hu Hf H. prep H. tinv H; norm.
    match goal with Hb : consume_opt b g = _ |- _ => destruct (consume_opt_cnt _ _ _ _ _ Hb Hf) as (_ & _ & Hcb & _) end.
    match goal with Hq : negb (prov_ref _ a) = false |- _ => apply negb_false_iff in Hq; rename Hq into Pa end.
    subst. repeat split; try exact I.
    intros x. cbn [uses]. rewrite (occ_prov _ _ a) by assumption. rewrite Hcb, ind_nil. one. lia.
  - (* FSplit *)
    intros a b from k IHk g sh pty f' Hu Hf H.
    cbn [uninit_form] in Hu. apply andb_prop in Hu; destruct Hu as (Hu & Huk).
    apply andb_prop in Hu; destruct Hu as (Hu & Huf). apply andb_prop in Hu; destruct Hu as (Hua & Hub).
    prep H. tinv H; norm.
    match goal with Hq : negb (prov_ref _ a || prov_ref _ b) = true |- _ => apply negb_true_iff, orb_false2 in Hq; destruct Hq as (Pa & Pb) end.
    match goal with Hc : consume_opt from g = _ |- _ => destruct (consume_opt_cnt _ _ _ _ _ Hc Hf) as (Hp & -> & Hcnt & Hf1) end.
    match goal with G : negb (ctx_has _ _ || ctx_has _ _) = true |- _ => apply fresh2 in G; destruct G as (Fa & Fb) end.
    match goal with G : negb (name_equal _ _) = true |- _ => apply (differ_of _ _ Hua Hub) in G; rename G into Dab end.
    match goal with Hk : tc_form _ _ ?g2 _ _ k = TOk _ |- _ =>
      assert (Hf2 : shf g2 (shid sh)) by (apply shf_aset; auto; apply shf_aset; auto);
      destruct (IHk _ _ _ _ Huk Hf2 Hk) as (I1 & I2 & I3) end.
    unfold good. cbn [uses bound_once binders_fresh].
    split; [|split].
    + intros x. rewrite Hcnt. apply AllEq_addl. apply AllEq_hide; rewrite binds2; intros Hb.
      { apply orb_true_iff in Hb. destruct Hb as [Hb|Hb]; apply String.eqb_eq in Hb; subst x; now apply ind_false. }
      { apply orb_false2 in Hb. destruct Hb as (Hb1 & Hb2). apply String.eqb_neq in Hb1, Hb2.
        specialize (I1 x). rewrite !ind_aset_other in I1; auto. }
    + repeat split; auto.
      { specialize (I1 (ident a)). rewrite ind_aset_other, ind_aset_same in I1; auto. }
      { specialize (I1 (ident b)). now rewrite ind_aset_same in I1. }
    + intros live Hs. pose proof (same_remove _ _ (ident from) Hs) as Hs'.
      unfold fresh, not_prov. rewrite !Hs'. repeat split; auto. apply I3. now apply same_cons, same_cons.
  - (* FCall *)
    intros fn args pt g sh pty f' Hu Hf H. prep H. tinv H; norm.
    + match goal with Ha : tc_args _ _ _ _ = TOk _ |- _ => pose proof (tc_args_cnt _ _ _ _ _ _ _ Ha Hf) as Hcnt end.
      subst. repeat split; try exact I.
      intros x. cbn [uses sum_occ fold_right]. rewrite Hcnt, ind_nil.
      match goal with Hq : is_self ?n || _ = true |- _ => assert (Pn : prov_ref (shid sh) n = true) end.
      { unfold prov_ref. destruct sh; cbn in *; auto. now rewrite String.eqb_sym. }
      rewrite (occ_prov _ _ _ Pn). one. unfold sum_occ. lia.
    + match goal with Ha : tc_args _ _ _ _ = TOk _ |- _ => pose proof (tc_args_cnt _ _ _ _ _ _ _ Ha Hf) as Hcnt end.
      subst. repeat split; try exact I.
      intros x. cbn [uses]. rewrite Hcnt, ind_nil. one. lia.
  - (* FCast *)
    intros a c g sh pty f' Hu Hf H. prep H. tinv H; norm.
    + match goal with Hc : consume_opt c g = _ |- _ => destruct (consume_opt_cnt _ _ _ _ _ Hc Hf) as (_ & _ & Hcc & _) end.
      subst. repeat split; try exact I.
      intros x. cbn [uses]. rewrite (occ_prov _ _ a) by assumption. rewrite Hcc, ind_nil. one. lia.
    + match goal with Ha : consume a g = _ |- _ => destruct (consume_cnt _ _ _ _ _ Ha Hf) as (_ & _ & Hca & Hf1) end.
      match goal with Hc : consume_maybe_self_opt c _ _ _ = _ |- _ => destruct (cmso_cnt _ _ _ _ _ _ Hc Hf1) as (Hcc & _) end.
      subst. repeat split; try exact I.
      intros x. cbn [uses]. rewrite Hca, Hcc, ind_nil. one. lia.
  - (* FShift *)
    intros y from k IHk g sh pty f' Hu Hf H.
    cbn [uninit_form] in Hu. apply andb_prop in Hu; destruct Hu as (Hu & Huk). apply andb_prop in Hu; destruct Hu as (Huy & Huf).
    prep H. tinv H; norm.
    + (* UpSR *)
      match goal with G : negb (ctx_has _ _) = true |- _ => apply fresh1 in G; rename G into Fy end.
      match goal with Hk : tc_form _ _ g ?s1 _ k = TOk _ |- _ =>
        assert (Hf1 : shf g (shid s1)) by (cbn; exact Fy);
        destruct (IHk _ _ _ _ Huk Hf1 Hk) as (I1 & I2 & I3) end.
      cbn [shid option_map set_nty ident] in I1, I2, I3.
      unfold good. cbn [uses bound_once binders_fresh].
      match goal with Hq : prov_ref _ from = true |- _ => rewrite Hq end.
      split; [|split]; auto.
      intros live Hs. unfold fresh. rewrite Hs. split; auto.
    + (* DnSL *)
      match goal with Hc : consume from g = TOk _ |- _ => destruct (consume_cnt _ _ _ _ _ Hc Hf) as (Hp & -> & Hcnt & Hf1) end.
      match goal with G : negb (ctx_has _ _) = true |- _ => apply fresh1 in G; rename G into Fy end.
      match goal with Hq : prov_ref _ y = false |- _ => rename Hq into Py end.
      match goal with Hk : tc_form _ _ ?g2 _ _ k = TOk _ |- _ =>
        assert (Hf2 : shf g2 (shid sh)) by (apply shf_aset; auto);
        destruct (IHk _ _ _ _ Huk Hf2 Hk) as (I1 & I2 & I3) end.
      unfold good. cbn [uses bound_once binders_fresh].
      match goal with Hq : prov_ref _ from = false |- _ => rewrite Hq end.
      split; [|split].
      * intros x. rewrite Hcnt. apply AllEq_addl. apply AllEq_hide; rewrite binds1; intros Hb.
        { apply String.eqb_eq in Hb; subst x. now apply ind_false. }
        { apply String.eqb_neq in Hb. specialize (I1 x). rewrite ind_aset_other in I1; auto. }
      * split; auto. specialize (I1 (ident y)). now rewrite ind_aset_same in I1.
      * intros live Hs. pose proof (same_remove _ _ (ident from) Hs) as Hs'.
        unfold fresh, not_prov. rewrite Hs'. repeat split; auto. apply I3. now apply same_cons.
  - (* FDrop *)
    intros c k IHk g sh pty f' Hu Hf H.
    cbn [uninit_form] in Hu. apply andb_prop in Hu; destruct Hu as (Huc & Huk).
    prep H. tinv H; norm.
    match goal with Hc : consume c g = TOk _ |- _ => destruct (consume_cnt _ _ _ _ _ Hc Hf) as (Hp & -> & Hcnt & Hf1) end.
    match goal with Hk : tc_form _ _ _ _ _ k = TOk _ |- _ => destruct (IHk _ _ _ _ Huk Hf1 Hk) as (I1 & I2 & I3) end.
    split; [|split].
    + intros x. cbn [uses]. rewrite Hcnt. apply AllEq_addl, I1.
    + exact I2.
    + intros live Hs. cbn [binders_fresh]. apply I3. now apply same_remove.
  - (* FPrint *)
    intros l k IHk g sh pty f' Hu Hf H. cbn [uninit_form] in Hu.
    prep H. tinv H; norm.
    match goal with Hk : tc_form _ _ _ _ _ k = TOk _ |- _ => exact (IHk _ _ _ _ Hu Hf Hk) end.
  - (* BrNil *)
    split; intros; repeat split; try exact I; intros; apply AllEq_nil.
  - (* BrCons *)
    intros l pay k IHk r [IHp IHc]. split.
    + intros g tbs seen res Hu H.
      cbn [uninit_brs] in Hu. apply andb_prop in Hu; destruct Hu as (Hu & Hur). apply andb_prop in Hu; destruct Hu as (Hup & Huk).
      rewrite tc_branches_provider_cons in H. tinv H; norm.
      match goal with G : negb (ctx_has _ _) = true |- _ => apply fresh1 in G; rename G into Fp end.
      match goal with Hk : tc_form _ _ g ?s1 _ k = TOk _ |- _ =>
        assert (Hf1 : shf g (shid s1)) by (cbn; exact Fp);
        destruct (IHk _ _ _ _ Huk Hf1 Hk) as (I1 & I2 & I3) end.
      cbn [shid option_map set_nty ident] in I1, I2, I3.
      match goal with Hr : tc_branches_provider _ _ _ _ _ r = TOk _ |- _ => destruct (IHp _ _ _ _ Hur Hr) as (J1 & J2 & J3) end.
      unfold good_bp. cbn [uses_bp bound_once_bp binders_fresh_bp]. split; [|split]; auto.
      * intros x. apply AllEq_app; auto.
      * intros live Hs. unfold fresh. rewrite Hs. repeat split; auto.
    + intros g sh pty tbs seen res Hu Hf H.
      cbn [uninit_brs] in Hu. apply andb_prop in Hu; destruct Hu as (Hu & Hur). apply andb_prop in Hu; destruct Hu as (Hup & Huk).
      rewrite tc_branches_client_cons, ?is_provider_prov in H. tinv H; norm.
      match goal with G : negb (ctx_has _ _) = true |- _ => apply fresh1 in G; rename G into Fp end.
      match goal with Hq : negb (prov_ref _ pay) = true |- _ => apply negb_true_iff in Hq; rename Hq into Pp end.
      match goal with Hk : tc_form _ _ ?g1 _ _ k = TOk _ |- _ =>
        assert (Hf1 : shf g1 (shid sh)) by (apply shf_aset; auto);
        destruct (IHk _ _ _ _ Huk Hf1 Hk) as (I1 & I2 & I3) end.
      match goal with Hr : tc_branches_client _ _ _ _ _ _ _ r = TOk _ |- _ => destruct (IHc _ _ _ _ _ _ Hur Hf Hr) as (J1 & J2 & J3) end.
      unfold good_bc. cbn [uses_bc bound_once_bc binders_fresh_bc]. split; [|split].
      * intros x. apply AllEq_app; auto. apply AllEq_hide; rewrite binds1; intros Hb.
        { apply String.eqb_eq in Hb; subst x. now apply ind_false. }
        { apply String.eqb_neq in Hb. specialize (I1 x). rewrite ind_aset_other in I1; auto. }
      * repeat split; auto. specialize (I1 (ident pay)). now rewrite ind_aset_same in I1.
      * intros live Hs. unfold fresh, not_prov. rewrite Hs. repeat split; auto. apply I3. now apply same_cons.
Qed.
