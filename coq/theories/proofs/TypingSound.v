(* proofs/TypingSound.v — C07, soundness: whatever the checker model accepts is derivable in the
   declarative system of spec/Typing.v. *)
Require Import Grits.Base Grits.ModeDefs Grits.Modes Grits.STypes Grits.Forms Grits.Subst Grits.Infer
               Grits.TcDeps Grits.Expand Grits.Tc Grits.TcTop Grits.spec.Typing Grits.proofs.TcLemmas Grits.proofs.TcUnfold.

(* one step of inverting a successful run of the checker *)
Ltac step H :=
  match type of H with
  | tbind (guard ?b _) _ = TOk _ =>
      let E := fresh "G" in destruct b eqn:E; cbn [tbind guard] in H; [|discriminate H]
  | tbind (lift ?o) _ = TOk _ =>
      let E := fresh "E" in destruct o eqn:E; cbn [tbind lift] in H; [|discriminate H..]
  | tbind ?X _ = TOk _ =>
      let E := fresh "E" in destruct X eqn:E; cbn [tbind] in H; [|discriminate H..]
  end; repeat match goal with u : unit |- _ => destruct u end.

(* ---------------------------------------------------------------- the small functions *)
Lemma consume_ok n g t g' : consume n g = TOk (t, g') ->
  is_self n = false /\ alookup (ident n) g = Some t /\ g' = aremove (ident n) g.
Proof.
  unfold consume. destruct (is_self n); [discriminate|].
  destruct (alookup (ident n) g); [|discriminate]. intros H. inversion H; subst. auto.
Qed.
Lemma consume_opt_some n g t g' : consume_opt n g = (Some t, g') ->
  is_self n = false /\ alookup (ident n) g = Some t /\ g' = aremove (ident n) g.
Proof.
  unfold consume_opt. destruct (is_self n); [discriminate|].
  destruct (alookup (ident n) g); [|discriminate]. intros H. inversion H; subst. auto.
Qed.
Lemma consume_maybe_self_prov n sh g pty : is_provider n sh = true -> consume_maybe_self n sh g pty = TOk (pty, g).
Proof.
  intros P. rewrite <- is_provider_sym in P. unfold consume_maybe_self.
  destruct (is_self n); auto. cbn in P. now rewrite P.
Qed.
Lemma consume_maybe_self_opt_prov n sh g pty : is_provider n sh = true -> consume_maybe_self_opt n sh g pty = (Some pty, g).
Proof.
  intros P. rewrite <- is_provider_sym in P. unfold consume_maybe_self_opt.
  destruct (is_self n); auto. cbn in P. now rewrite P.
Qed.
Lemma not_provider_not_self n sh : is_provider n sh = false -> is_self n = false.
Proof. unfold is_provider. destruct (is_self n); auto. Qed.

Lemma pol_eqb_eq p q : pol_eqb p q = true -> p = q.
Proof. destruct p, q; cbn; congruence. Qed.
Lemma pol_valid_ok n h : pol_valid (set_nty n (Some h)) = TOk true <-> pol_ok n h.
Proof.
  unfold pol_valid, pol_ok. cbn. destruct (pol n) as [p|]; [|tauto].
  destruct (polarity_of h) as [q|s|s]; cbn; split; intros H; try discriminate.
  - inversion H as [H1]. apply pol_eqb_eq in H1. now subst.
  - inversion H; subst. destruct p; reflexivity.
Qed.
Lemma check_pols_cons n r : check_pols (n :: r) = TOk tt <-> pol_valid n = TOk true /\ check_pols r = TOk tt.
Proof.
  cbn [check_pols]. destruct (pol_valid n) as [[|]| | |]; cbn; split; intros H; try tauto; try discriminate;
    try (destruct H; discriminate).
Qed.
Lemma check_pols1 a ha : check_pols [set_nty a (Some ha)] = TOk tt <-> pol_ok a ha.
Proof. rewrite check_pols_cons, pol_valid_ok. cbn. tauto. Qed.
Lemma check_pols2 a ha b hb : check_pols [set_nty a (Some ha); set_nty b (Some hb)] = TOk tt <-> pol_ok a ha /\ pol_ok b hb.
Proof. rewrite check_pols_cons, pol_valid_ok, check_pols1. tauto. Qed.
Lemma check_pols3 a ha b hb c hc :
  check_pols [set_nty a (Some ha); set_nty b (Some hb); set_nty c (Some hc)] = TOk tt <-> pol_ok a ha /\ pol_ok b hb /\ pol_ok c hc.
Proof. rewrite check_pols_cons, pol_valid_ok, check_pols2. tauto. Qed.

Lemma linear_gamma_ok g : linear_gamma g = TOk tt <-> g = [].
Proof. destruct g; cbn; split; congruence. Qed.

Lemma as_tensor_some t a b m : as_tensor t = Some (a, b, m) -> t = Some (TTensor a b m).
Proof. destruct t as [[]|]; cbn; congruence. Qed.
Lemma as_lolli_some t a b m : as_lolli t = Some (a, b, m) -> t = Some (TLolli a b m).
Proof. destruct t as [[]|]; cbn; congruence. Qed.
Lemma as_plus_some t bs m : as_plus t = Some (bs, m) -> t = Some (TPlus bs m).
Proof. destruct t as [[]|]; cbn; congruence. Qed.
Lemma as_with_some t bs m : as_with t = Some (bs, m) -> t = Some (TWith bs m).
Proof. destruct t as [[]|]; cbn; congruence. Qed.
Lemma as_up_some t f to a : as_up t = Some (f, to, a) -> t = Some (TUp f to a).
Proof. destruct t as [[]|]; cbn; congruence. Qed.
Lemma as_down_some t f to a : as_down t = Some (f, to, a) -> t = Some (TDown f to a).
Proof. destruct t as [[]|]; cbn; congruence. Qed.
Lemma is_unit_some t : is_unit t = true -> exists m, t = Some (TUnit m).
Proof. destruct t as [[]|]; cbn; try congruence. eauto. Qed.

Lemma equal_opt_some D s t : equal_opt D (Some s) (Some t) = lift (equal_type D s t).
Proof. destruct s; reflexivity. Qed.

Lemma type_mismatch_not_ok {A} t w (a : A) : type_mismatch t w = TOk a -> False.
Proof. destruct t; discriminate. Qed.

Definition wf_sigma (D : tenv) (Sg : sigma) : Prop :=
  forall fn sg, sig_lookup Sg fn = Some sg ->
    (exists ft, fs_type sg = Some ft /\ check_wf D ft = true) /\ Forall (typed_name_ok D) (fs_params sg).

Section Sound.
Variable teq : tenv -> sty -> sty -> Prop.
Variable D : tenv.
Variable Sg : sigma.
Hypothesis HD : wf_env D.
Hypothesis equal_sound : forall s t, check_wf D s = true -> check_wf D t = true ->
  equal_type D s t = Ok true -> teq D s t.
Hypothesis HSg : wf_sigma D Sg.

Notation Typed := (Typed teq D Sg).

Definition SoundAt (f : form) : Prop := forall g sh A f',
  wf_ctx D g -> check_wf D A = true -> tc_form D Sg g sh (Some A) f = TOk f' -> Typed g sh A f.

Lemma unfold_head_wf t h : check_wf D t = true -> unfold D t = Ok (Some h) -> head D t h /\ check_wf D h = true.
Proof. intros W U. apply unfold_spec in U. split; auto. eapply head_wf; eauto. Qed.

(* looking a client up in a well-formed context *)
Lemma lookup_wf g x t : wf_ctx D g -> alookup x g = Some t -> exists s, t = Some s /\ check_wf D s = true.
Proof. apply wf_ctx_lookup. Qed.

Lemma unfold_f_not_none : forall fuel t, check_labels D t = true -> unfold_f fuel D t <> Ok None.
Proof.
  induction fuel as [|f IH]; cbn; intros t W; [discriminate|].
  destruct t; try discriminate. cbn in W. destruct (tlookup D x) eqn:E; [|discriminate].
  apply IH. pose proof (HD _ _ E) as W2. unfold check_wf in W2. apply andb_true_iff in W2. tauto.
Qed.
Lemma unfold_wf s a : check_wf D s = true -> unfold D s = Ok a ->
  exists h, a = Some h /\ head D s h /\ check_wf D h = true.
Proof.
  intros W U. destruct a as [h|].
  - exists h. destruct (unfold_head_wf _ _ W U). auto.
  - exfalso. unfold check_wf in W. apply andb_true_iff in W. destruct W as [W _].
    exact (unfold_f_not_none _ _ W U).
Qed.

Lemma consume_wf g n t g1 : wf_ctx D g -> consume n g = TOk (t, g1) ->
  exists s, t = Some s /\ has g n s /\ g1 = without g n /\ check_wf D s = true /\ wf_ctx D g1.
Proof.
  intros W C. apply consume_ok in C. destruct C as [S [L ->]].
  destruct (lookup_wf _ _ _ W L) as [s [-> Ws]]. exists s. unfold has, without.
  repeat split; auto using wf_ctx_remove.
Qed.
Lemma consume_opt_wf g n t g1 : wf_ctx D g -> consume_opt n g = (Some t, g1) ->
  exists s, t = Some s /\ has g n s /\ g1 = without g n /\ check_wf D s = true /\ wf_ctx D g1.
Proof.
  intros W C. apply consume_opt_some in C. destruct C as [S [L ->]].
  destruct (lookup_wf _ _ _ W L) as [s [-> Ws]]. exists s. unfold has, without.
  repeat split; auto using wf_ctx_remove.
Qed.

Lemma fail_bind {A B} (X : tcr A) (K : A -> tcr B) r : (forall u, X <> TOk u) -> tbind X K = TOk r -> False.
Proof. intros N. destruct X; cbn; try discriminate. destruct (N a eq_refl). Qed.
Lemma equal_opt_true a b : equal_opt D a b = TOk true -> exists s t, a = Some s /\ b = Some t /\ equal_type D s t = Ok true.
Proof.
  destruct a as [s|], b as [t|].
  - rewrite equal_opt_some. destruct (equal_type D s t) as [[|]| |] eqn:E; cbn; try discriminate.
    intros _. exists s, t. auto.
  - destruct s; discriminate.
  - destruct t; discriminate.
  - discriminate.
Qed.

End Sound.

Ltac nok := let u := fresh "u" in intros u; unfold type_mismatch;
  repeat (match goal with |- context [match ?x with _ => _ end] => destruct x end); discriminate.

(* H : tdo x <- unfold_opt D (Some s); K  with  W : check_wf D s = true *)
Ltac unf HD H W :=
  cbn [unfold_opt] in H;
  match type of H with tbind (lift (unfold ?D ?s)) _ = TOk _ =>
    let E := fresh "U" in let a := fresh "a" in let h := fresh "h" in let Hh := fresh "Hh" in let Wh := fresh "Wh" in
    destruct (unfold D s) as [a| |] eqn:E; cbn [tbind lift] in H; [|discriminate H..];
    destruct (unfold_wf D HD _ _ W E) as [h [-> [Hh Wh]]]; clear E
  end.
(* H : tdo e <- equal_opt D a b; tdo _ <- (if e then TOk tt else X); K *)
Ltac eqs H :=
  match type of H with tbind (equal_opt ?D ?a ?b) _ = TOk _ =>
    let Q := fresh "Q" in
    destruct (equal_opt D a b) as [[|]| | |] eqn:Q; cbn [tbind] in H;
    [ | exfalso; first [discriminate H | apply fail_bind in H; [exact H|nok]] | discriminate H..]
  end.

(* H : tdo (ct, g1) <- consume n g; K   with Wg : wf_ctx D g *)
Ltac cns H Wg :=
  match type of H with tbind (consume ?n ?g) _ = TOk _ =>
    let C := fresh "C" in let p := fresh "p" in
    destruct (consume n g) as [p| | |] eqn:C; cbn [tbind] in H; [|discriminate H..];
    destruct p as [? ?];
    let s := fresh "t" in let Hs := fresh "Has" in let Ws := fresh "Wt" in let Wg1 := fresh "Wg" in
    destruct (consume_wf _ _ _ _ _ Wg C) as [s [-> [Hs [-> [Ws Wg1]]]]]; clear C
  end.
(* H : let '(fl, g1) := consume_opt n g in K *)
Ltac cnso H Wg :=
  match type of H with context [consume_opt ?n ?g] =>
    let C := fresh "C" in let fl := fresh "fl" in let g1 := fresh "g" in
    destruct (consume_opt n g) as [fl g1] eqn:C;
    destruct fl as [fl|];
    [ let s := fresh "t" in let Hs := fresh "Has" in let Ws := fresh "Wt" in let Wg1 := fresh "Wg" in
      destruct (consume_opt_wf _ _ _ _ _ Wg C) as [s [-> [Hs [-> [Ws Wg1]]]]]; clear C
    | ]
  end.
Ltac as3 H f lem :=
  match type of H with context [f (Some ?h)] =>
    let T := fresh "T" in
    destruct (f (Some h)) as [[[? ?] ?]|] eqn:T; [|now apply type_mismatch_not_ok in H];
    apply lem in T; inversion T; subst h; clear T
  end.
Ltac as2 H f lem :=
  match type of H with context [f (Some ?h)] =>
    let T := fresh "T" in
    destruct (f (Some h)) as [[? ?]|] eqn:T; [|now apply type_mismatch_not_ok in H];
    apply lem in T; inversion T; subst h; clear T
  end.

Section Sound2.
Variable teq : tenv -> sty -> sty -> Prop.
Variable D : tenv.
Variable Sg : sigma.
Hypothesis HD : wf_env D.
Hypothesis equal_sound : forall s t, check_wf D s = true -> check_wf D t = true ->
  equal_type D s t = Ok true -> teq D s t.
Hypothesis HSg : wf_sigma D Sg.

Notation Typed := (Typed teq D Sg).
Notation SoundAt := (SoundAt teq D Sg).

Lemma eq_sound a b : check_wf D a = true -> check_wf D b = true -> equal_opt D (Some a) (Some b) = TOk true -> teq D a b.
Proof.
  intros Wa Wb Q. apply equal_opt_true in Q. destruct Q as [s [t [E1 [E2 Q]]]].
  inversion E1; inversion E2; subst. auto.
Qed.

Lemma sound_send to pay cont : SoundAt (FSend to pay cont).
Proof.
  intros g sh A f' Wg WA H. cbn [tc_form] in H.
  destruct (is_provider to sh) eqn:Pto.
  - (* tensor R *)
    unf HD H WA. as3 H as_tensor as_tensor_some.
    destruct (wf_tensor _ _ _ _ Wh) as [Wel Wer].
    cnso H Wg; [|cbn in H; destruct (consume_opt cont g0) as [fr g2]; destruct fr; cbn in H; try step H; discriminate H].
    unf HD H Wt.
    cnso H Wg0; [|cbn in H; discriminate H].
    unf HD H Wt0. cbn [guard tbind] in H.
    eqs H. eqs H. step H. step H.
    apply check_pols3 in E. destruct E as [P1 [P2 P3]].
    apply linear_gamma_ok in E0.
    eapply T_TensorR; eauto using eq_sound.
  - (* lolli L *)
    destruct (is_provider cont sh) eqn:Pc; [|discriminate H].
    cns H Wg. unf HD H Wt. as3 H as_lolli as_lolli_some.
    destruct (wf_lolli _ _ _ _ Wh) as [Wel Wer].
    cnso H Wg0.
    2:{ rewrite (consume_maybe_self_opt_prov _ _ _ _ Pc) in H. unf HD H Wel. unf HD H Wer.
        cbn [unfold_opt tbind] in H. step H. cbn in H. discriminate H. }
    rewrite (consume_maybe_self_opt_prov _ _ _ _ Pc) in H.
    unf HD H Wel. unf HD H Wer. unf HD H Wt0. unf HD H WA. cbn [guard tbind] in H.
    eqs H. eqs H. step H. step H.
    apply check_pols3 in E. destruct E as [P1 [P2 P3]].
    apply linear_gamma_ok in E0.
    eapply T_LolliL; eauto using eq_sound.
Qed.

Lemma sound_recv pay cont from k : SoundAt k -> SoundAt (FRecv pay cont from k).
Proof.
  intros IH g sh A f' Wg WA H. cbn [tc_form] in H.
  destruct (is_provider from sh) eqn:Pf.
  - (* lolli R *)
    unf HD H WA. as3 H as_lolli as_lolli_some.
    destruct (wf_lolli _ _ _ _ Wh) as [Wl Wr].
    unf HD H Wl. unf HD H Wr. step H. step H.
    apply negb_true_iff, orb_false_iff in G. destruct G as [F1 F2]. apply negb_true_iff in G0.
    step H. apply check_pols3 in E. destruct E as [P1 [P2 P3]].
    step H.
    eapply T_LolliR; eauto.
    eapply IH; eauto. apply wf_ctx_set; auto.
  - destruct (is_provider pay sh || is_provider cont sh) eqn:Pp; [discriminate H|].
    apply orb_false_iff in Pp. destruct Pp as [Pp Pc].
    cns H Wg. unf HD H Wt. as3 H as_tensor as_tensor_some.
    destruct (wf_tensor _ _ _ _ Wh) as [Wl Wr].
    unf HD H Wl. unf HD H Wr. step H. step H.
    apply negb_true_iff, orb_false_iff in G. destruct G as [F1 F2]. apply negb_true_iff in G0.
    step H. apply check_pols3 in E. destruct E as [P1 [P2 P3]].
    step H.
    eapply T_TensorL; eauto.
    eapply IH; eauto. repeat apply wf_ctx_set; auto.
Qed.

Lemma sound_sel to l cont : SoundAt (FSel to l cont).
Proof.
  intros g sh A f' Wg WA H. cbn [tc_form] in H.
  destruct (is_provider to sh) eqn:Pto.
  - (* plus R *)
    unf HD H WA. as2 H as_plus as_plus_some.
    destruct (find_br l b) as [ct|] eqn:F; [|discriminate H].
    pose proof (wf_plus _ _ _ _ _ Wh F) as Wct.
    cns H Wg. eqs H. unf HD H Wct. step H. step H.
    apply check_pols2 in E. destruct E as [P1 P2]. apply linear_gamma_ok in E0.
    eapply T_PlusR; eauto using eq_sound.
  - (* with L *)
    destruct (is_provider cont sh) eqn:Pc; [|discriminate H].
    cns H Wg. unf HD H Wt. as2 H as_with as_with_some.
    destruct (find_br l b) as [ct|] eqn:F; [|discriminate H].
    pose proof (wf_with _ _ _ _ _ Wh F) as Wct.
    rewrite (consume_maybe_self_prov _ _ _ _ Pc) in H. cbn [tbind] in H.
    eqs H. unf HD H Wct. step H. step H.
    apply check_pols2 in E. destruct E as [P1 P2]. apply linear_gamma_ok in E0.
    eapply T_WithL; eauto using eq_sound.
Qed.

Lemma sound_close c : SoundAt (FClose c).
Proof.
  intros g sh A f' Wg WA H. cbn [tc_form] in H.
  unf HD H WA.
  destruct (is_provider c sh) eqn:Pc.
  - destruct (is_unit (Some h)) eqn:Un; [|now apply type_mismatch_not_ok in H].
    apply is_unit_some in Un. destruct Un as [m Un]. inversion Un; subst h.
    step H. step H. apply check_pols1 in E. apply linear_gamma_ok in E0. subst g.
    eapply T_OneR; eauto.
  - destruct (is_unit (Some h)); [discriminate H|now apply type_mismatch_not_ok in H].
Qed.

Lemma sound_wait c k : SoundAt k -> SoundAt (FWait c k).
Proof.
  intros IH g sh A f' Wg WA H. cbn [tc_form] in H.
  destruct (is_provider c sh) eqn:Pc.
  - unf HD H WA. destruct (is_unit (Some h)); [discriminate H|now apply type_mismatch_not_ok in H].
  - cns H Wg. unf HD H Wt.
    destruct (is_unit (Some h)) eqn:Un; [|now apply type_mismatch_not_ok in H].
    apply is_unit_some in Un. destruct Un as [m Un]. inversion Un; subst h.
    step H. apply check_pols1 in E. step H.
    eapply T_OneL; eauto.
Qed.

Lemma polarity_nonname h : is_name h = false -> exists p, polarity_of h = Ok p.
Proof. destruct h; cbn; try discriminate; eauto. Qed.

Lemma sound_fwd to from d : SoundAt (FFwd to from d).
Proof.
  intros g sh A f' Wg WA H. cbn [tc_form] in H.
  destruct (is_provider from sh) eqn:Pf; [discriminate H|].
  destruct (is_provider to sh) eqn:Pt; [|discriminate H]. cbn [negb] in H.
  cnso H Wg; [|cbn in H; discriminate H].
  unf HD H Wt. cbn [guard tbind] in H.
  eqs H. unf HD H WA. cbn [need tbind] in H.
  step H. step H. step H. apply pol_eqb_eq in G. subst.
  step H. step H. apply check_pols2 in E1. destruct E1 as [P1 P2]. apply linear_gamma_ok in E2.
  eapply T_Id; eauto using eq_sound.
Qed.

Lemma sound_split x y from k : SoundAt k -> SoundAt (FSplit x y from k).
Proof.
  intros IH g sh A f' Wg WA H. cbn [tc_form] in H.
  destruct (is_provider from sh) eqn:Pf; [discriminate H|].
  cnso H Wg; [|cbn in H; discriminate H].
  unf HD H Wt. cbn [guard tbind] in H.
  step H. apply negb_true_iff, orb_false_iff in G. destruct G as [Px Py].
  step H. step H. apply negb_true_iff, orb_false_iff in G. destruct G as [F1 F2]. apply negb_true_iff in G0.
  cbn [need tbind] in H. step H. step H. apply check_pols3 in E. destruct E as [P1 [P2 P3]].
  step H.
  eapply T_Split; eauto.
  eapply IH; eauto. repeat apply wf_ctx_set; auto.
Qed.

Lemma sound_drop c k : SoundAt k -> SoundAt (FDrop c k).
Proof.
  intros IH g sh A f' Wg WA H. cbn [tc_form] in H.
  destruct (is_provider c sh) eqn:Pc; [discriminate H|]. cbn [negb] in H.
  cns H Wg. cbn [need tbind] in H.
  destruct (weak (mode_of t)) eqn:Wk; [|discriminate H].
  unf HD H Wt. step H. apply check_pols1 in E. step H.
  eapply T_Drop; eauto.
Qed.

Lemma sound_print l k : SoundAt k -> SoundAt (FPrint l k).
Proof.
  intros IH g sh A f' Wg WA H. cbn [tc_form] in H. step H.
  eapply T_Print; eauto.
Qed.

Lemma sound_cast to cont : SoundAt (FCast to cont).
Proof.
  intros g sh A f' Wg WA H. cbn [tc_form] in H.
  destruct (is_provider to sh) eqn:Pto.
  - (* down R *)
    unf HD H WA. as3 H as_down as_down_some.
    pose proof (wf_down _ _ _ _ Wh) as Wa.
    step H. step H. subst. apply down_o_true in E.
    unf HD H Wa.
    cnso H Wg; [|cbn in H; discriminate H].
    unf HD H Wt. cbn [guard need tbind] in H.
    step H. eqs H. step H. step H.
    apply check_pols2 in E0. destruct E0 as [P1 P2]. apply linear_gamma_ok in E1.
    eapply T_DownR; eauto using eq_sound.
  - (* up L *)
    destruct (is_provider cont sh) eqn:Pc; [|discriminate H].
    cns H Wg. unf HD H Wt. as3 H as_up as_up_some.
    pose proof (wf_up _ _ _ _ Wh) as Wa.
    step H. step H. subst. apply up_o_true in E.
    rewrite (consume_maybe_self_opt_prov _ _ _ _ Pc) in H.
    unf HD H Wa. unf HD H WA. cbn [guard need tbind] in H.
    step H. eqs H. step H. step H.
    apply check_pols2 in E0. destruct E0 as [P1 P2]. apply linear_gamma_ok in E1.
    eapply T_UpL; eauto using eq_sound.
Qed.

Lemma sound_shift x from k : SoundAt k -> SoundAt (FShift x from k).
Proof.
  intros IH g sh A f' Wg WA H. cbn [tc_form] in H.
  destruct (is_provider from sh) eqn:Pf.
  - (* up R *)
    unf HD H WA. as3 H as_up as_up_some.
    pose proof (wf_up _ _ _ _ Wh) as Wa.
    step H. step H. subst. apply up_o_true in E.
    unf HD H Wa. step H. apply negb_true_iff in G.
    step H. apply check_pols2 in E0. destruct E0 as [P1 P2]. step H.
    eapply T_UpR; eauto.
  - destruct (is_provider x sh) eqn:Px; [discriminate H|].
    cns H Wg. unf HD H Wt. as3 H as_down as_down_some.
    pose proof (wf_down _ _ _ _ Wh) as Wa.
    step H. step H. subst. apply down_o_true in E.
    unf HD H Wa. step H. apply negb_true_iff in G.
    step H. apply check_pols2 in E0. destruct E0 as [P1 P2]. step H.
    eapply T_DownL; eauto.
    eapply IH; eauto. apply wf_ctx_set; auto.
Qed.

(* ---------------------------------------------------------------- call *)
Lemma sound_args : forall args params g args' g', wf_ctx D g -> Forall (typed_name_ok D) params ->
  length args = length params -> tc_args D g args params = TOk (args', g') -> TypedArgs teq D g args params g'.
Proof.
  induction args as [|a ar IH]; intros [|p pr] g args' g' Wg Wp L H; try discriminate L.
  - cbn in H. inversion H; subst. constructor.
  - cbn [tc_args] in H. inversion Wp as [|p0 pr0 [tp [Np Wtp]] Wpr]; subst.
    cns H Wg. rewrite Np in H. eqs H. unf HD H Wt. step H. apply check_pols1 in E.
    step H. destruct a0 as [ar' g2]. inversion H; subst.
    econstructor; eauto using eq_sound.
Qed.

Lemma sound_call fn args o : SoundAt (FCall fn args o).
Proof.
  intros g sh A f' Wg WA H. cbn [tc_form] in H.
  destruct (sig_lookup Sg fn) as [sg|] eqn:SL; [|discriminate H].
  destruct (HSg _ _ SL) as [[ft [Eft Wft]] Wps]. rewrite Eft in H.
  destruct (S (length (fs_params sg)) =? length args)%nat eqn:N1.
  - apply Nat.eqb_eq in N1. destruct args as [|a0 rest]; [discriminate H|].
    step H. rewrite is_provider_sym in G.
    eqs H. step H. destruct a as [rest' g1]. step H. apply linear_gamma_ok in E0. subst g1.
    assert (L : length rest = length (fs_params sg)) by (cbn in N1; lia).
    eapply T_CallSelf; eauto using eq_sound. eapply sound_args; eauto.
  - destruct (length (fs_params sg) =? length args)%nat eqn:N2; [|discriminate H].
    apply Nat.eqb_eq in N2. symmetry in N2.
    eqs H. step H. destruct a as [rest' g1]. step H. apply linear_gamma_ok in E0. subst g1.
    eapply T_Call; eauto using eq_sound. eapply sound_args; eauto.
Qed.

(* ---------------------------------------------------------------- case *)
Definition brs_seen (b : branches) (seen seen' : list string) : Prop :=
  seen' = rev (br_labels b) ++ seen /\ NoDup (br_labels b) /\ (forall l, In l (br_labels b) -> ~ In l seen).

Definition wf_brs (bs : brs) : Prop := forall l a, find_br l bs = Some a -> check_wf D a = true.

Definition SoundBrs (b : branches) : Prop :=
  (forall g bs seen b' seen', wf_ctx D g -> wf_brs bs ->
     tc_branches_provider D Sg g bs seen b = TOk (b', seen') ->
     TypedBrsR teq D Sg g bs b /\ brs_seen b seen seen') /\
  (forall g sh A bs seen b' seen', wf_ctx D g -> check_wf D A = true -> wf_brs bs ->
     tc_branches_client D Sg g sh (Some A) bs seen b = TOk (b', seen') ->
     TypedBrsL teq D Sg g sh A bs b /\ brs_seen b seen seen').

Lemma brs_seen_nil seen : brs_seen BrNil seen seen.
Proof. repeat split; cbn; auto. constructor. Qed.
Lemma brs_seen_cons l pay k r seen seen' :
  str_mem l seen = false -> brs_seen r (l :: seen) seen' -> brs_seen (BrCons l pay k r) seen seen'.
Proof.
  intros M [E [N Dj]]. apply str_mem_false in M. repeat split.
  - cbn. rewrite <- app_assoc. exact E.
  - cbn. constructor; auto. intros Hin. apply (Dj _ Hin). now left.
  - cbn. intros l' [<-|Hin]; auto. intros Hs. apply (Dj _ Hin). now right.
Qed.

Lemma sound_brs_nil : SoundBrs BrNil.
Proof.
  split.
  - intros g bs seen b' seen' _ _ H. cbn in H. inversion H; subst. split; [constructor|apply brs_seen_nil].
  - intros g sh A bs seen b' seen' _ _ _ H. cbn in H. inversion H; subst. split; [constructor|apply brs_seen_nil].
Qed.

Lemma sound_brs_cons l pay k r : SoundAt k -> SoundBrs r -> SoundBrs (BrCons l pay k r).
Proof.
  intros IHk [IHR IHL]. split.
  - intros g bs seen b' seen' Wg Wbs H. cbn [tc_branches_provider] in H.
    step H. apply negb_true_iff in G.
    destruct (find_br l bs) as [bt|] eqn:F; [|discriminate H].
    pose proof (Wbs _ _ F) as Wbt.
    step H. apply negb_true_iff in G0.
    unf HD H Wbt. step H. apply check_pols1 in E. step H. step H. destruct a0 as [r' s']. inversion H; subst.
    destruct (IHR _ _ _ _ _ Wg Wbs E1) as [TR SR].
    split; [econstructor; eauto|apply brs_seen_cons; auto].
  - intros g sh A bs seen b' seen' Wg WA Wbs H. cbn [tc_branches_client] in H.
    step H. apply negb_true_iff in G.
    destruct (find_br l bs) as [bt|] eqn:F; [|discriminate H].
    pose proof (Wbs _ _ F) as Wbt.
    step H. apply negb_true_iff in G0. step H. apply negb_true_iff in G1.
    unf HD H Wbt. step H. apply check_pols1 in E. step H. step H. destruct a0 as [r' s']. inversion H; subst.
    destruct (IHL _ _ _ _ _ _ _ Wg WA Wbs E1) as [TR SR].
    split; [econstructor; eauto|apply brs_seen_cons; auto].
    eapply IHk; eauto. apply wf_ctx_set; auto.
Qed.

Lemma typed_brsR_labels g bs b : TypedBrsR teq D Sg g bs b -> incl (br_labels b) (brs_labels bs).
Proof.
  induction 1; cbn; [intros ? []|]. intros l' [<-|Hin]; auto. eapply find_br_Some_In; eauto.
Qed.
Lemma typed_brsL_labels g sh A bs b : TypedBrsL teq D Sg g sh A bs b -> incl (br_labels b) (brs_labels bs).
Proof.
  induction 1; cbn; [intros ? []|]. intros l' [<-|Hin]; auto. eapply find_br_Some_In; eauto.
Qed.

Lemma labels_cover (bl : list string) bs seen' :
  seen' = rev bl ++ [] -> NoDup bl -> incl bl (brs_labels bs) ->
  negb (length seen' <? brs_len bs)%nat = true -> incl (brs_labels bs) bl.
Proof.
  intros -> N I L. apply negb_true_iff, Nat.ltb_ge in L.
  rewrite app_nil_r, rev_length, brs_len_labels in L.
  apply NoDup_length_incl; auto.
Qed.

Lemma sound_case from b : SoundBrs b -> SoundAt (FCase from b).
Proof.
  intros [IHR IHL] g sh A f' Wg WA H. cbn [tc_form] in H.
  destruct (is_provider from sh) eqn:Pf.
  - unf HD H WA. as2 H as_with as_with_some.
    step H. destruct a as [b' seen']. step H. step H. apply check_pols1 in E0.
    destruct (IHR _ _ _ _ _ Wg (fun l a => wf_with _ _ _ l a Wh) E) as [TR [SE [SN _]]].
    eapply T_WithR; eauto.
    eapply labels_cover; eauto using typed_brsR_labels.
  - cns H Wg. unf HD H Wt. as2 H as_plus as_plus_some.
    step H. destruct a as [b' seen']. step H. step H. apply check_pols1 in E0.
    destruct (IHL _ _ _ _ _ _ _ Wg0 WA (fun l a => wf_plus _ _ _ l a Wh) E) as [TR [SE [SN _]]].
    eapply T_PlusL; eauto.
    eapply labels_cover; eauto using typed_brsL_labels.
Qed.

(* ---------------------------------------------------------------- cut *)
Lemma split_gamma_sound : forall ns g acc gl gr, wf_ctx D g -> wf_ctx D acc ->
  split_gamma D g ns acc = TOk (gl, gr) -> split_ctx D g ns acc gl gr /\ wf_ctx D gl /\ wf_ctx D gr.
Proof.
  induction ns as [|n r IH]; intros g acc gl gr Wg Wa H; cbn [split_gamma] in H.
  - inversion H; subst. repeat split; auto. constructor.
  - destruct (is_self n) eqn:S.
    + destruct (IH _ _ _ _ Wg Wa H) as [H1 [H2 H3]]. repeat split; auto. now apply split_self.
    + cnso H Wg; [|discriminate H].
      unf HD H Wt.
      destruct (IH _ _ _ _ Wg0 (wf_ctx_set _ _ (ident n) _ Wa Wh) H) as [H1 [H2 H3]].
      repeat split; auto. eapply split_take; eauto.
Qed.

Lemma indep_one_sound a b : indep_one (Some a) (Some b) = TOk tt <-> down (mode_of a) (mode_of b) = true.
Proof.
  unfold indep_one. cbn [need tbind]. rewrite <- down_o_true.
  destruct (down_o (mode_of a) (mode_of b)) as [[|]| |]; cbn; split; congruence.
Qed.
Lemma indep_all_sound gl h : indep_all (map snd gl) (Some h) = TOk tt -> ctx_ge gl (mode_of h).
Proof.
  induction gl as [|[x t] r IH]; cbn [map snd indep_all]; intros H; [intros ? ? []|].
  step H. apply IH in H. intros y s [Hin|Hin]; [|eauto].
  inversion Hin; subst. now apply indep_one_sound.
Qed.

Lemma reuse_guards (a b : bool) : negb (negb a && b) = true -> negb (a && negb b) = true -> a = b.
Proof. destruct a, b; cbn; congruence. Qed.

Lemma sound_new x body k : SoundAt body -> SoundAt k -> SoundAt (FNew x body k).
Proof.
  intros IHb IHk g sh A f' Wg WA H.
  destruct (call_or_not body) as [[fn [args [o ->]]]|NC].
  - rewrite tc_new_call_eq in H. unfold tc_new_call in H. cbv zeta in H.
    step H. apply negb_true_iff in G. rename G into PX.
    step H. step H. step H. pose proof (reuse_guards _ _ G G0) as RU.
    step H. destruct a as [gl gr0].
    destruct (split_gamma_sound _ _ _ _ _ Wg (Forall_nil _) E) as [SP [Wgl Wgr]].
    destruct (sig_lookup Sg fn) as [sg|] eqn:SL; [|discriminate H].
    destruct (HSg _ _ SL) as [[ft [Eft Wft]] Wps]. rewrite Eft in H.
    unf HD H Wft.
    assert (AN : forall xt, nty x = Some xt ->
              exists xt1, add_missing D xt = Ok xt1 /\ check_wf D xt1 = true /\ teq D xt1 h).
    { intros xt Nx. rewrite Nx in H.
      destruct (add_missing D xt) as [xt1| |] eqn:AM; cbn [lift tbind] in H; try discriminate H.
      destruct (check_wf D xt1) eqn:Wx; cbn [guard tbind] in H; [|discriminate H].
      destruct (equal_opt D (Some xt1) (Some h)) as [[|]| | |] eqn:Q; cbn [tbind] in H; try discriminate H.
      exists xt1. repeat split; auto. apply eq_sound; auto. }
    step H. clear E0. step H. apply indep_all_sound in E0.
    step H. step H. step H. apply indep_one_sound in E3. step H. apply check_pols1 in E4.
    assert (EQ : aset (ident x) (Some h) (if ctx_has g (ident x) then aset (ident x) (nty x) gr0 else gr0)
                 = bind gr0 x h) by (destruct (ctx_has g (ident x)); [apply aset_aset|reflexivity]).
    rewrite EQ in E2.
    pose proof (IHb _ _ _ _ Wgl Wh E1) as TB.
    pose proof (IHk _ _ _ _ (wf_ctx_set _ _ (ident x) _ Wgr Wh) WA E2) as TK.
    eapply T_CutCall; eauto.
  - rewrite (tc_new_ax_eq _ _ _ _ _ _ _ _ NC) in H. unfold tc_new_ax in H. cbv zeta in H.
    step H. apply negb_true_iff in G. rename G into PX.
    step H. step H. step H. pose proof (reuse_guards _ _ G G0) as RU. apply negb_true_iff in G1.
    step H. destruct a as [gl gr0].
    destruct (split_gamma_sound _ _ _ _ _ Wg (Forall_nil _) E) as [SP [Wgl Wgr]].
    destruct (nty x) as [xt|] eqn:Nx; [|discriminate H].
    step H. step H. rename a into xt1. unf HD H G2.
    step H. apply indep_all_sound in E1. step H. apply indep_one_sound in E2.
    step H. cbn [unfold_opt] in H. rewrite (unfold_nonname _ _ (head_nonname _ _ _ Hh)) in H. cbn [lift tbind] in H.
    step H. apply check_pols1 in E4. step H.
    assert (EQ : aset (ident x) (Some h) (if ctx_has g (ident x) then aset (ident x) (Some xt) gr0 else gr0)
                 = bind gr0 x h) by (destruct (ctx_has g (ident x)); [apply aset_aset|reflexivity]).
    rewrite EQ in E5.
    pose proof (IHb _ _ _ _ Wgl Wh E3) as TB.
    pose proof (IHk _ _ _ _ (wf_ctx_set _ _ (ident x) _ Wgr Wh) WA E5) as TK.
    eapply T_CutAx; eauto.
Qed.

(* ---------------------------------------------------------------- all forms *)
Theorem tc_form_sound_all :
  (forall f, SoundAt f) /\ (forall b, SoundBrs b).
Proof.
  apply form_branches_ind; intros.
  - apply sound_send.
  - now apply sound_recv.
  - apply sound_sel.
  - now apply sound_case.
  - now apply sound_new.
  - apply sound_close.
  - now apply sound_wait.
  - apply sound_fwd.
  - now apply sound_split.
  - apply sound_call.
  - apply sound_cast.
  - now apply sound_shift.
  - now apply sound_drop.
  - now apply sound_print.
  - apply sound_brs_nil.
  - now apply sound_brs_cons.
Qed.

Theorem tc_form_sound g sh A f f' :
  wf_ctx D g -> check_wf D A = true -> tc_form D Sg g sh (Some A) f = TOk f' -> Typed g sh A f.
Proof. intros. eapply (proj1 tc_form_sound_all); eauto. Qed.

End Sound2.
