(* proofs/TeqMono.v — the declarative judgement depends on the type-equality parameter only through
   pairs of GOOD types: types that pass CheckTypeWellFormedness and are syntactically what the parser
   produces (EqualWF.syn_ok).  If teq1 implies teq2 on good types over an accepted environment, every
   derivation with teq1 of a program whose types are syn_ok is a derivation with teq2.
   Used to move between "EqualType answers true" and bisimilarity (C07 with C08). *)
Require Import Grits.Base Grits.ModeDefs Grits.Modes Grits.STypes Grits.Forms Grits.Subst Grits.Infer
               Grits.TcDeps Grits.Expand Grits.Tc Grits.EqualWF Grits.spec.SynOk Grits.spec.Typing
               Grits.proofs.TcLemmas.

Definition good (D : tenv) (t : sty) : Prop := check_wf D t = true /\ syn_ok t = true.
Definition genv (D : tenv) : Prop :=
  TcLemmas.wf_env D /\ (forall x d, tlookup D x = Some d -> syn_ok (td_body d) = true).

(* ---------------------------------------------------------------- syn_ok *)
Lemma syn_find_br : forall bs l a, syn_ok_brs bs = true -> find_br l bs = Some a -> syn_ok a = true.
Proof.
  induction bs as [|l' a' r IH]; cbn; intros l a H F; [discriminate|]. andbs.
  destruct (String.eqb l l'); [inversion F; subst; auto|eauto].
Qed.

Lemma assign_syn D :
  (forall t cur, syn_ok (assign D cur t) = syn_ok t) /\
  (forall b cur, syn_ok_brs (assign_brs D cur b) = syn_ok_brs b /\ brs_len (assign_brs D cur b) = brs_len b).
Proof.
  apply sty_brs_ind; intros; cbn [assign assign_brs syn_ok syn_ok_brs brs_len]; auto.
  - destruct (negb (is_unset m)); auto. destruct (tlookup D x); auto.
  - destruct (is_unset m); auto.
  - now rewrite H, H0.
  - now rewrite H, H0.
  - destruct (H (if is_unset m then cur else m)) as [-> ->]. reflexivity.
  - destruct (H (if is_unset m then cur else m)) as [-> ->]. reflexivity.
  - destruct (H0 cur) as [-> ->]. now rewrite H.
Qed.
Lemma add_missing_syn D t t' : add_missing D t = Ok t' -> syn_ok t = true -> syn_ok t' = true.
Proof.
  unfold add_missing. destruct (infer _ D t []) as [[m u]| |]; cbn; try discriminate.
  intros H S. inversion H; subst. now rewrite (proj1 (assign_syn D)).
Qed.

(* ---------------------------------------------------------------- good types *)
Section Good.
Variable D : tenv.
Hypothesis HD : genv D.

Lemma good_tensor a b m : good D (TTensor a b m) -> good D a /\ good D b.
Proof. intros [W S]. cbn in S. andbs. destruct (wf_tensor _ _ _ _ W). repeat split; auto. Qed.
Lemma good_lolli a b m : good D (TLolli a b m) -> good D a /\ good D b.
Proof. intros [W S]. cbn in S. andbs. destruct (wf_lolli _ _ _ _ W). repeat split; auto. Qed.
Lemma good_up f t a : good D (TUp f t a) -> good D a.
Proof. intros [W S]. cbn in S. split; eauto using wf_up. Qed.
Lemma good_down f t a : good D (TDown f t a) -> good D a.
Proof. intros [W S]. cbn in S. split; eauto using wf_down. Qed.
Lemma good_plus bs m l a : good D (TPlus bs m) -> find_br l bs = Some a -> good D a.
Proof. intros [W S] F. cbn in S. andbs. split; eauto using wf_plus, syn_find_br. Qed.
Lemma good_with bs m l a : good D (TWith bs m) -> find_br l bs = Some a -> good D a.
Proof. intros [W S] F. cbn in S. andbs. split; eauto using wf_with, syn_find_br. Qed.
Lemma good_head t h : head D t h -> good D t -> good D h.
Proof.
  destruct HD as [H1 H2]. induction 1 as [h N|x m d h E _ IH]; auto.
  intros _. apply IH. split; eauto.
Qed.

Definition gentry (kv : string * option sty) : Prop := exists s, snd kv = Some s /\ good D s.
Definition gctx (g : ctx) : Prop := Forall gentry g.
Definition gbrs (bs : brs) : Prop := forall l a, find_br l bs = Some a -> good D a.

Lemma gctx_has g n t : gctx g -> has g n t -> good D t.
Proof.
  intros W [_ L]. apply alookup_In in L. unfold gctx in W. rewrite Forall_forall in W.
  destruct (W _ L) as [s [E G]]. cbn in E. inversion E; subst. exact G.
Qed.
Lemma gctx_without g n : gctx g -> gctx (without g n).
Proof. apply aremove_Forall. Qed.
Lemma gctx_bind g n t : gctx g -> good D t -> gctx (bind g n t).
Proof. intros W G. apply aset_Forall; auto. exists t. auto. Qed.
Lemma gctx_nil : gctx [].
Proof. constructor. Qed.

Lemma split_ctx_good g ns acc gl gr : split_ctx D g ns acc gl gr -> gctx g -> gctx acc -> gctx gl /\ gctx gr.
Proof.
  induction 1 as [g acc|g n r acc gl gr S SP IH|g n r acc gl gr t h Ha Hh SP IH]; intros Wg Wa; auto.
  apply IH; [now apply gctx_without|]. apply gctx_bind; auto. eapply good_head; eauto using gctx_has.
Qed.

Lemma ctx_of_names_good ns : Forall (fun n => exists t, nty n = Some t /\ good D t) ns -> gctx (ctx_of_names ns).
Proof.
  unfold ctx_of_names. assert (G : forall acc, gctx acc -> Forall (fun n => exists t, nty n = Some t /\ good D t) ns ->
    gctx (fold_left (fun g n => aset (ident n) (nty n) g) ns acc)).
  { induction ns as [|n r IH]; cbn; intros acc Wa F; auto.
    inversion F as [|n0 r0 [t [Nt Gt]] Fr]; subst. apply IH; auto. rewrite Nt. now apply (gctx_bind acc n t). }
  intros F. apply G; auto. constructor.
Qed.
End Good.

Ltac note pf := let T := type of pf in lazymatch goal with | _ : T |- _ => fail | _ => pose proof pf end.

(* ---------------------------------------------------------------- the judgement *)
Section Mono.
Variables teq1 teq2 : tenv -> sty -> sty -> Prop.
Variable D : tenv.
Variable Sg : sigma.
Hypothesis HD : genv D.
Hypothesis Hm : forall s t, good D s -> good D t -> teq1 D s t -> teq2 D s t.
Definition gsigma : Prop := forall fn sg, sig_lookup Sg fn = Some sg ->
  (forall ft, fs_type sg = Some ft -> good D ft) /\
  Forall (fun p => forall tp, nty p = Some tp -> good D tp) (fs_params sg).
Hypothesis HSg : gsigma.

Lemma typed_args_mono g args params g' : TypedArgs teq1 D g args params g' ->
  gctx D g -> Forall (fun p => forall tp, nty p = Some tp -> good D tp) params ->
  TypedArgs teq2 D g args params g'.
Proof.
  induction 1 as [g|g a ar p pr g' ta tp ha Ha Np Te Hh Po TA IH]; intros Wg Wp; [constructor|].
  inversion Wp as [|p0 pr0 Gp Wpr]; subst.
  econstructor; eauto using gctx_has, gctx_without.
Qed.

Ltac gsat := repeat match goal with
  | Wg : gctx D ?g, H : has ?g ?n ?t |- _ => note (gctx_has D _ _ _ Wg H)
  | Wg : gctx D ?g, H : has ?g ?n ?t |- _ => note (gctx_without D _ n Wg)
  | W : good D ?t, H : head D ?t ?h |- _ => note (good_head D HD _ _ H W)
  | W : good D (TTensor _ _ _) |- _ => note (proj1 (good_tensor D _ _ _ W))
  | W : good D (TTensor _ _ _) |- _ => note (proj2 (good_tensor D _ _ _ W))
  | W : good D (TLolli _ _ _) |- _ => note (proj1 (good_lolli D _ _ _ W))
  | W : good D (TLolli _ _ _) |- _ => note (proj2 (good_lolli D _ _ _ W))
  | W : good D (TUp _ _ _) |- _ => note (good_up D _ _ _ W)
  | W : good D (TDown _ _ _) |- _ => note (good_down D _ _ _ W)
  | W : good D (TPlus ?bs _), F : find_br _ ?bs = Some _ |- _ => note (good_plus D _ _ _ _ W F)
  | W : good D (TWith ?bs _), F : find_br _ ?bs = Some _ |- _ => note (good_with D _ _ _ _ W F)
  | W : gbrs D ?bs, F : find_br _ ?bs = Some _ |- _ => note (W _ _ F)
  end.

Ltac prep := cbn [form_syn branches_syn] in *; andbs; gsat.
Ltac fin := eauto 6 using gctx_bind, gctx_without, gctx_nil.

Theorem typed_mono_all :
  (forall g sh A f, Typed teq1 D Sg g sh A f ->
     gctx D g -> good D A -> form_syn f = true -> Typed teq2 D Sg g sh A f) /\
  (forall g bs b, TypedBrsR teq1 D Sg g bs b ->
     gctx D g -> gbrs D bs -> branches_syn b = true -> TypedBrsR teq2 D Sg g bs b) /\
  (forall g sh A bs b, TypedBrsL teq1 D Sg g sh A bs b ->
     gctx D g -> good D A -> gbrs D bs -> branches_syn b = true -> TypedBrsL teq2 D Sg g sh A bs b).
Proof.
  apply Typed_mutind; intros; prep.
  - eapply T_TensorR; fin.
  - eapply T_TensorL; fin.
  - eapply T_LolliR; fin.
  - eapply T_LolliL; fin.
  - eapply T_PlusR; fin.
  - eapply T_PlusL; fin. match goal with IH : _ -> _ -> _ -> _ -> TypedBrsL teq2 _ _ _ _ _ _ _ |- _ => apply IH; fin end.
    intros l a F. eapply good_plus; eauto.
  - eapply T_WithR; fin. match goal with IH : _ -> _ -> _ -> TypedBrsR teq2 _ _ _ _ _ |- _ => apply IH; fin end.
    intros l a F. eapply good_with; eauto.
  - eapply T_WithL; fin.
  - eapply T_OneR; fin.
  - eapply T_OneL; fin.
  - eapply T_DownR; fin.
  - eapply T_DownL; fin.
  - eapply T_UpR; fin.
  - eapply T_UpL; fin.
  - eapply T_Id; fin.
  - (* cut, call body *)
    match goal with SL : sig_lookup Sg _ = Some ?sg, Ft : fs_type ?sg = Some ?ft |- _ =>
      pose proof (proj1 (HSg _ _ SL) _ Ft) as Gft end. gsat.
    match goal with SP : split_ctx D _ _ _ _ _ |- _ =>
      destruct (split_ctx_good D HD _ _ _ _ _ SP ltac:(assumption) (gctx_nil D)) as [Ggl Ggr] end.
    eapply T_CutCall; fin.
    + intros xt Nx. match goal with AN : forall xt, nty x = Some xt -> _ |- _ => destruct (AN _ Nx) as [xt1 [AM [Wx Te]]] end.
      exists xt1. repeat split; auto. apply Hm; auto. split; auto.
      eapply add_missing_syn; eauto. match goal with S : name_syn x = true |- _ => unfold name_syn in S; rewrite Nx in S; exact S end.
    + match goal with IH : _ -> _ -> _ -> Typed teq2 D Sg gl _ _ _ |- _ => apply IH; auto end.
      apply andb_true_iff; auto.
  - (* cut, axiom body *)
    match goal with SP : split_ctx D _ _ _ _ _ |- _ =>
      destruct (split_ctx_good D HD _ _ _ _ _ SP ltac:(assumption) (gctx_nil D)) as [Ggl Ggr] end.
    assert (Gx1 : good D xt1).
    { split; auto. eapply add_missing_syn; eauto.
      match goal with S : name_syn x = true, Nx : nty x = Some _ |- _ => unfold name_syn in S; rewrite Nx in S; exact S end. }
    gsat. eapply T_CutAx; fin.
  - match goal with SL : sig_lookup Sg _ = Some ?sg, Ft : fs_type ?sg = Some ?ft |- _ =>
      pose proof (proj1 (HSg _ _ SL) _ Ft) as Gft; pose proof (proj2 (HSg _ _ SL)) as Gps end.
    eapply T_Call; fin. eapply typed_args_mono; eauto.
  - match goal with SL : sig_lookup Sg _ = Some ?sg, Ft : fs_type ?sg = Some ?ft |- _ =>
      pose proof (proj1 (HSg _ _ SL) _ Ft) as Gft; pose proof (proj2 (HSg _ _ SL)) as Gps end.
    eapply T_CallSelf; fin. eapply typed_args_mono; eauto.
  - eapply T_Drop; fin.
  - eapply T_Split; fin.
  - eapply T_Print; fin.
  - constructor.
  - econstructor; fin.
  - constructor.
  - econstructor; fin.
Qed.
End Mono.

(* ---------------------------------------------------------------- programs *)
Require Import Grits.TcTop Grits.proofs.TypingSound Grits.proofs.TypingSoundTop.

Lemma genv_intro D : sanity_typedefs D = Ok true -> env_syn D = true -> genv D.
Proof.
  intros S E. split; [now apply TcLemmas.sanity_wf_env|].
  intros x d L. apply TcLemmas.tlookup_In in L. destruct L as [L _].
  unfold env_syn in E. rewrite forallb_forall in E. auto.
Qed.

Lemma elab_name_syn D n n' : elab_name D n n' -> name_syn n = true -> name_syn n' = true.
Proof.
  intros [t [t' [E1 [E2 ->]]]] S. unfold name_syn in *. cbn. rewrite E1 in S. eapply add_missing_syn; eauto.
Qed.
Lemma elab_names_syn D ns ns' : Forall2 (elab_name D) ns ns' -> forallb name_syn ns = true -> forallb name_syn ns' = true.
Proof.
  induction 1 as [|n n' r r' E _ IH]; cbn; auto. intros H. andbs. rewrite (elab_name_syn _ _ _ E), IH; auto.
Qed.

Lemma elab_syn p pe : elab_program p pe -> prog_syn_ok p = true -> prog_syn_ok pe = true.
Proof.
  intros [ET [EF [EP EA]]] S. unfold prog_syn_ok in *.
  apply andb_true_iff in S. destruct S as [S SA]. apply andb_true_iff in S. destruct S as [S SP].
  apply andb_true_iff in S. destruct S as [SE SF]. rewrite ET, SE. cbn [andb].
  assert (F : forallb fun_syn (p_funs pe) = true).
  { clear - EF SF. induction EF as [|f f' r r' [t [t' [ps' [E1 [E2 [E3 ->]]]]]] _ IH]; cbn [forallb] in *; auto.
    apply andb_true_iff in SF. destruct SF as [Sf Sr]. rewrite (IH Sr), andb_true_r.
    unfold fun_syn in *. cbn [fn_type fn_params fn_body opt_syn].
    apply andb_true_iff in Sf. destruct Sf as [Sf Sb]. apply andb_true_iff in Sf. destruct Sf as [St Sp].
    rewrite E1 in St. cbn in St. rewrite (add_missing_syn _ _ _ E2 St), (elab_names_syn _ _ _ E3 Sp), Sb. reflexivity. }
  assert (P : forallb proc_syn (p_procs pe) = true).
  { clear - EP SP. induction EP as [|q q' r r' [t [t' [E1 [E2 ->]]]] _ IH]; cbn [forallb] in *; auto.
    apply andb_true_iff in SP. destruct SP as [Sq Sr]. rewrite (IH Sr), andb_true_r.
    unfold proc_syn in *. cbn [pr_type pr_providers pr_body opt_syn].
    apply andb_true_iff in Sq. destruct Sq as [Sq Sb]. apply andb_true_iff in Sq. destruct Sq as [St Sp].
    rewrite E1 in St. cbn in St. rewrite (add_missing_syn _ _ _ E2 St), Sp, Sb. reflexivity. }
  rewrite F, P. cbn [andb]. eapply elab_names_syn; eauto.
Qed.

Section ProgMono.
Variables teq1 teq2 : tenv -> sty -> sty -> Prop.
Hypothesis Hm : forall D, sanity_typedefs D = Ok true -> env_syn D = true ->
  forall s t, good D s -> good D t -> teq1 D s t -> teq2 D s t.

Definition gname (D : tenv) (n : name) : Prop := exists t, nty n = Some t /\ good D t.

Lemma gname_intro D n : typed_name_ok D n -> name_syn n = true -> gname D n.
Proof. intros [t [Nt Wt]] S. exists t. unfold name_syn in S. rewrite Nt in S. repeat split; auto. Qed.

Lemma top_names_good D ps assumed :
  Forall (fun q => forall n, In n (pr_providers q) -> gname D (set_nty n (pr_type q))) ps ->
  Forall (gname D) assumed ->
  Forall (fun kv => gname D (snd kv)) (top_names ps assumed).
Proof.
  intros PS TA. unfold top_names.
  assert (G1 : forall (l : list (string * name)) acc, Forall (fun kv => gname D (snd kv)) l ->
               Forall (fun kv => gname D (snd kv)) acc ->
               Forall (fun kv => gname D (snd kv)) (fold_left (fun m kv => aset (fst kv) (snd kv) m) l acc)).
  { induction l as [|kv r IH]; cbn; intros acc Fl Fa; auto. inversion Fl; subst.
    apply IH; auto. apply aset_Forall; auto. }
  assert (G2 : forall (l : list name) acc, Forall (gname D) l ->
               Forall (fun kv => gname D (snd kv)) acc ->
               Forall (fun kv => gname D (snd kv)) (fold_left (fun m a => aset (ident a) a m) l acc)).
  { induction l as [|a r IH]; cbn; intros acc Fl Fa; auto. inversion Fl; subst.
    apply IH; auto. apply aset_Forall; auto. }
  apply G2; auto. apply G1; [|constructor].
  apply Forall_forall. intros kv Hkv. apply in_flat_map in Hkv. destruct Hkv as [q [Hq Hkv]].
  apply in_map_iff in Hkv. destruct Hkv as [n [<- Hn]]. cbn.
  rewrite Forall_forall in PS. apply (PS _ Hq _ Hn).
Qed.

Lemma proc_ctx_good D (HD : genv D) ps assumed q :
  Forall (fun kv => gname D (snd kv)) (top_names ps assumed) -> gctx D (proc_ctx ps assumed q).
Proof.
  intros AV. unfold proc_ctx. apply ctx_of_names_good. apply Forall_forall. intros n Hn.
  apply in_flat_map in Hn. destruct Hn as [fn [_ Hn]].
  destruct (alookup (ident fn) (top_names ps assumed)) as [m|] eqn:E; [|destruct Hn].
  destruct Hn as [<-|[]]. apply alookup_In in E. rewrite Forall_forall in AV. apply (AV _ E).
Qed.

Theorem ProgOKe_mono pe : prog_syn_ok pe = true -> ProgOKe teq1 pe -> ProgOKe teq2 pe.
Proof.
  intros S [SD NF [Sg [SO [FO PO]]] NA TA NP DJ U1 U2 U3 AC PN].
  unfold prog_syn_ok in S.
  apply andb_true_iff in S. destruct S as [S SA]. apply andb_true_iff in S. destruct S as [S SP].
  apply andb_true_iff in S. destruct S as [SE SF].
  pose proof (genv_intro _ SD SE) as HD.
  rewrite forallb_forall in SF, SP, SA. rewrite Forall_forall in FO, PO, TA.
  assert (GF : forall f, In f (p_funs pe) ->
            (forall t, fn_type f = Some t -> good (p_types pe) t) /\ Forall (gname (p_types pe)) (fn_params f) /\
            form_syn (fn_body f) = true).
  { intros f Hf. destruct (FO _ Hf) as [N T [t [Ft [Wt _]]]]. specialize (SF _ Hf). unfold fun_syn in SF.
    apply andb_true_iff in SF. destruct SF as [SF Sb]. apply andb_true_iff in SF. destruct SF as [St Sp].
    rewrite Ft in St. cbn in St. split; [|split]; auto.
    - intros t1 E. rewrite Ft in E. inversion E; subst. split; auto.
    - rewrite forallb_forall in Sp. rewrite Forall_forall in T. apply Forall_forall. intros n Hn. apply gname_intro; auto. }
  assert (GS : gsigma (p_types pe) Sg).
  { intros fn sg SL. apply sig_lookup_In in SL.
    destruct (Forall2_In_r _ _ _ _ SO SL) as [f [Hf [_ [Ep [t [h [Ft [Hh Es]]]]]]]].
    destruct (GF _ Hf) as [G1 [G2 _]]. split.
    - intros ft E. rewrite Es in E. inversion E; subst. eapply good_head; eauto.
    - rewrite Ep. eapply Forall_impl; [|exact G2]. intros n [t0 [Nt Gt]] tp E. rewrite Nt in E. inversion E; subst. exact Gt. }
  assert (GA : Forall (gname (p_types pe)) (p_assumed pe)).
  { apply Forall_forall. intros n Hn. apply gname_intro; auto. }
  assert (GP : Forall (fun q => forall n, In n (pr_providers q) -> gname (p_types pe) (set_nty n (pr_type q))) (p_procs pe)).
  { apply Forall_forall. intros q Hq n _. destruct (PO _ Hq) as [[t [Pt [Wt _]]]]. specialize (SP _ Hq).
    unfold proc_syn in SP. andbs. exists t. rewrite Pt in *. cbn. repeat split; auto. }
  pose proof (top_names_good _ _ _ GP GA) as GT.
  constructor; auto; [|apply Forall_forall; exact TA].
  exists Sg. repeat split; auto; apply Forall_forall.
  - intros f Hf. destruct (FO _ Hf) as [N T [t [Ft [Wt [I Ty]]]]]. destruct (GF _ Hf) as [G1 [G2 G3]].
    constructor; auto. exists t. repeat split; auto.
    eapply (proj1 (typed_mono_all teq1 teq2 _ Sg HD (Hm _ SD SE) GS)); eauto.
    apply ctx_of_names_good; auto.
  - intros q Hq. destruct (PO _ Hq) as [[t [Pt [Wt [C Ty]]]]]. specialize (SP _ Hq). unfold proc_syn in SP. andbs.
    constructor. exists t. repeat split; auto.
    eapply (proj1 (typed_mono_all teq1 teq2 _ Sg HD (Hm _ SD SE) GS)); eauto.
    + now apply proc_ctx_good.
    + rewrite Pt in *. split; auto.
Qed.

Theorem ProgOK_mono p : prog_syn_ok p = true -> ProgOK teq1 p -> ProgOK teq2 p.
Proof.
  intros S [pe [E OK]]. exists pe. split; auto. apply ProgOKe_mono; auto. eapply elab_syn; eauto.
Qed.
End ProgMono.
