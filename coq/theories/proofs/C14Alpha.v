(* proofs/C14Alpha.v — C14 (c) for accepted programs: if the annotated program q' is the annotated
   program p' with every FUNCTION and every PROCESS BODY renamed by its own injective identifier map
   (process names fixed), then in the two polarized modes the two programs run in lock step under every
   scheduler oracle and every fuel: same kind of result, same printed labels, same live processes.
   (The invariant that keeps both runs typed is a8's InvX, proofs/InvAll.v / DeterminismAll.v.) *)
From stdpp Require Import gmap strings sorting.
Require Import Grits.Base Grits.ModeDefs Grits.Modes Grits.STypes Grits.Forms Grits.Subst Grits.TcDeps Grits.Expand
               Grits.Tc Grits.TcTop Grits.spec.SynOk Grits.Runtime Grits.spec.RtTyping Grits.spec.Topo
               Grits.proofs.RtSafety Grits.proofs.RtInit Grits.proofs.RtTheorems Grits.proofs.RtTcSyn Grits.proofs.RtTcBisim
               Grits.proofs.AsyncSync Grits.proofs.InvAll Grits.proofs.InvNP Grits.proofs.DeterminismAll.
Require Import Grits.spec.Rename Grits.proofs.RenameRun Grits.proofs.RenameSimT Grits.proofs.RenameAlpha.

(* ---------------------------------------------------------------- the initial configurations *)
Definition fixes (c : string -> string) (ns : list name) : Prop := Forall (fun n => c (ident n) = ident n) ns.
Definition procrel (provs : list name) (pr pr' : procdef) : Prop :=
  exists c, okc c /\ fixes c provs /\
    pr_providers pr' = pr_providers pr /\ pr_type pr' = pr_type pr /\ pr_body pr' = rn_form (crn c) (pr_body pr).

Lemma rn_fixed c n : c (ident n) = ident n -> rn_name (crn c) n = n.
Proof. intros H. rewrite crn_name, H. destruct n; reflexivity. Qed.

Lemma init_provs_fixed c i provs : fixes c provs -> Forall (fun x : name * name => rnn (crn c) x = x) (init_provs i provs).
Proof.
  intros Hf. unfold init_provs. apply Forall_forall. intros x Hx. apply elem_of_list_In in Hx. apply elem_of_lookup_imap in Hx. destruct Hx as (j & old & -> & Hj).
  unfold fixes in Hf. rewrite Forall_forall in Hf. specialize (Hf old (proj1 (elem_of_list_In _ _) (elem_of_list_lookup_2 _ _ _ Hj))).
  unfold rnn. cbn [fst snd]. rewrite (rn_fixed c old Hf). f_equal. rewrite crn_name. cbn. now rewrite Hf.
Qed.
Lemma init_pairs_fixed c (ps : list procdef) : fixes c (concat (map pr_providers ps)) ->
  forall k, Forall (fun x : name * name => rnn (crn c) x = x) (concat (imap (fun i pr => init_provs (k + i) (pr_providers pr)) ps)).
Proof.
  induction ps as [|pr ps IH]; intros Hf k; [constructor|]. rewrite imap_cons. cbn [concat].
  cbn [map concat] in Hf. unfold fixes in Hf. apply Forall_app in Hf. destruct Hf as [H1 H2].
  apply Forall_app. split; [apply init_provs_fixed, H1|].
  specialize (IH H2 (S k)). erewrite imap_ext; [exact IH|]. intros i x _. cbn. f_equal. lia.
Qed.
Lemma init_provs_init i provs : Forall (fun x : name * name => initialized (snd x) = true) (init_provs i provs).
Proof. unfold init_provs. apply Forall_forall. intros x Hx. apply elem_of_list_In in Hx. apply elem_of_lookup_imap in Hx. destruct Hx as (j & old & -> & _). reflexivity. Qed.

Lemma imap_pair_rel {A} (P : A -> A -> Prop) l l' : Forall2 P l l' -> forall k,
  Forall2 (fun x x' : nat * A => fst x' = fst x /\ P (snd x) (snd x')) (imap (fun i x => ((k + i)%nat, x)) l) (imap (fun i x => ((k + i)%nat, x)) l').
Proof.
  induction 1 as [|a a' l l' Ha _ IH]; intros k; [constructor|]. rewrite !imap_cons. constructor; [cbn; auto|].
  specialize (IH (S k)).
  erewrite (imap_ext _ (fun i x => ((S k + i)%nat, x)) l), (imap_ext _ (fun i x => ((S k + i)%nat, x)) l'); [exact IH| |];
    intros i x _; cbn; f_equal; lia.
Qed.
Lemma combine_rel {A B} (P : A -> A -> Prop) l l' : Forall2 P l l' -> forall (k : list B),
  Forall2 (fun y y' : A * B => P (fst y) (fst y') /\ snd y' = snd y) (combine l k) (combine l' k).
Proof. induction 1 as [|a a' l l' Ha _ IH]; intros [|b k]; cbn; constructor; auto. Qed.

Lemma providers_eq_gen X l l' : Forall2 (procrel X) l l' -> map pr_providers l' = map pr_providers l.
Proof. induction 1 as [|pr pr' l l' (c & _ & _ & E & _) _ IH]; cbn [map]; [reflexivity|]. rewrite E. f_equal. exact IH. Qed.

Section Init.
Variables p' q' : program.
Hypothesis Hprocs : Forall2 (procrel (concat (map pr_providers (p_procs p')))) (p_procs p') (p_procs q').

Lemma providers_eq : map pr_providers (p_procs q') = map pr_providers (p_procs p').
Proof. eapply providers_eq_gen, Hprocs. Qed.

Lemma inits_eq : imap (fun i pr => init_provs i (pr_providers pr)) (p_procs q') = imap (fun i pr => init_provs i (pr_providers pr)) (p_procs p').
Proof.
  pose proof providers_eq as E.
  assert (G : forall (l : list procdef), imap (fun i pr => init_provs i (pr_providers pr)) l = imap init_provs (map pr_providers l)).
  { intros l. change (map pr_providers l) with (pr_providers <$> l). rewrite imap_fmap. reflexivity. }
  now rewrite !G, E.
Qed.

Theorem init_crel : crel (init_config p') (init_config q').
Proof.
  unfold init_config. rewrite inits_eq.
  set (inits := imap (fun i pr => init_provs i (pr_providers pr)) (p_procs p')). set (all := concat inits).
  assert (Hall : forall c, fixes c (concat (map pr_providers (p_procs p'))) -> Forall (fun x : name * name => rnn (crn c) x = x) all).
  { intros c Hc. apply (init_pairs_fixed c (p_procs p') Hc 0). }
  assert (Hini : Forall (fun ini : list (name * name) => Forall (fun x => initialized (snd x) = true) ini) inits).
  { unfold inits. apply Forall_forall. intros ini Hi. apply elem_of_list_In in Hi. apply elem_of_lookup_imap in Hi. destruct Hi as (i & pr & -> & _). apply init_provs_init. }
  split; [|split]; cbn [procs chans out]; [| |reflexivity].
  - (* processes *)
    pose proof (imap_pair_rel _ _ _ (combine_rel _ _ _ Hprocs inits) 0) as HL. cbn [Nat.add] in HL.
    assert (Hin : Forall (fun x : nat * (procdef * list (name * name)) => Forall (fun y => initialized (snd y) = true) (snd (snd x)))
                    (imap (fun i x => (i, x)) (combine (p_procs p') inits))).
    { apply Forall_forall. intros x Hx. apply elem_of_list_In in Hx. apply elem_of_lookup_imap in Hx. destruct Hx as (i & [pr ini] & -> & Hl). cbn.
      rewrite Forall_forall in Hini. apply Hini. apply elem_of_list_In. apply elem_of_list_lookup_2 with i.
      clear -Hl. revert i Hl. generalize (p_procs p'). generalize inits. intros l1 l2. revert l1.
      induction l2 as [|a l2 IH]; intros [|b l1] [|i] Hl; cbn in *; try discriminate; [now inversion Hl | eauto]. }
    assert (Hfold : forall L L',
      Forall2 (fun x x' : nat * (procdef * list (name * name)) =>
                 fst x' = fst x /\ (procrel (concat (map pr_providers (p_procs p'))) (fst (snd x)) (fst (snd x')) /\ snd (snd x') = snd (snd x))) L L' ->
      forall (m m' : gmap pid proc), Forall (fun x : nat * (procdef * list (name * name)) => Forall (fun y => initialized (snd y) = true) (snd (snd x))) L ->
      (forall q, orel prel (m !! q) (m' !! q)) ->
      forall q, orel prel
        (fold_left (fun (m : gmap pid proc) '(i, (pr, ini)) =>
           <[ [i] := Proc (map snd ini) (fold_left (fun b '(old, new) => subst old new b) all (pr_body pr)) (length ini) ]> m) L m !! q)
        (fold_left (fun (m : gmap pid proc) '(i, (pr, ini)) =>
           <[ [i] := Proc (map snd ini) (fold_left (fun b '(old, new) => subst old new b) all (pr_body pr)) (length ini) ]> m) L' m' !! q)).
    { induction 1 as [|[i [pr ini]] [i' [pr' ini']] L L' (Ei & (c & [Hi H0] & Hfx & _ & _ & Eb) & Eini) _ IH]; intros m m' HI Hm; [exact Hm|].
      cbn [fst snd] in *. subst i' ini'. inversion HI as [|? ? Hini1 HI']; subst. cbn [fold_left]. apply IH; [exact HI'|].
      apply orel_insert; [exact Hm|]. exists c. split; [split; assumption|].
      assert (Emap : map (rnn (crn c)) all = all).
      { specialize (Hall c Hfx). clear -Hall. induction Hall as [|x l Hx _ IHl]; cbn; [reflexivity|]. now rewrite Hx, IHl. }
      unfold np', rn_proc. cbn [pr_provs pr_body0 pr_next]. rewrite <- (proj1 (nf'_rn c H0)).
      rewrite <- (fold_subst_rn (crn c) Hi H0 all (pr_body pr)), Emap, Eb. f_equal.
      symmetry. apply good_list_exact; [exact H0|]. cbn [snd] in Hini1. apply Forall_forall. intros n Hn. apply in_map_iff in Hn. destruct Hn as (y & <- & Hy).
      left. rewrite Forall_forall in Hini1. auto. }
    apply (Hfold _ _ HL ∅ ∅ Hin). intros q. rewrite lookup_empty. exact I.
  - (* channels: the same *) intros k.
    set (cm := fold_left (fun m '(_, new) => match chan new with Some k0 => <[k0 := empty_chan]> m | None => m end) all ∅).
    destruct (cm !! k) as [st|] eqn:E; cbn; [|exact I].
    assert (Hst : ch_buf st = None) by (apply (bufs_empty_init p' k st); exact E).
    split; [reflexivity|]. rewrite Hst. exact I.
Qed.
End Init.

(* ---------------------------------------------------------------- accepted programs, polarized modes *)
Definition decl_renamed (p' q' : program) : Prop :=
  p_types q' = p_types p' /\ Forall2 frel (p_funs p') (p_funs q') /\
  Forall2 (procrel (concat (map pr_providers (p_procs p')))) (p_procs p') (p_procs q').

Theorem run_decl_alpha p q p' q' md pick fuel :
  typecheck p = Accept p' -> typecheck q = Accept q' ->
  in_fragment p' -> in_fragment q' ->
  prog_syn_ok p = true -> prog_syn_ok q = true -> raw_ok p = true -> raw_ok q = true ->
  all_src_b p = true -> all_src_b q = true ->
  decl_renamed p' q' ->
  kind_of (run_program fuel pick md q') = kind_of (run_program fuel pick md p') /\
  labels (final_cfg (run_program fuel pick md q')) = labels (final_cfg (run_program fuel pick md p')) /\
  pids (final_cfg (run_program fuel pick md q')) = pids (final_cfg (run_program fuel pick md p')).
Proof.
  intros Ha Ha' Hf Hf' PS PS' RS RS' Hall Hall' (Et & Hfr & Hpr). unfold run_program. rewrite Et.
  destruct (init_invx p p' Ha Hf PS RS Hall) as (HFa & HFn & HI).
  destruct (init_invx q q' Ha' Hf' PS' RS' Hall') as (HFa' & HFn' & HI'). rewrite Et in HI'.
  pose proof (tc_annotations_typed_rt p p' Ha PS RS Hf) as Hst.
  pose proof (tc_annotations_typed_rt q q' Ha' PS' RS' Hf') as Hst'. rewrite Et in Hst'.
  assert (HFq : funs_typed (p_types p') (p_funs q') (teq_rt (p_types p'))) by (destruct Hst' as [H _]; rewrite Et in H; exact H).
  pose proof (teq_rt_laws (p_types p')) as Hlaws.
  set (D := p_types p'). set (teq := teq_rt D).
  apply (run_rel_labels D (p_funs p') (p_funs q') teq (proj1 Hst) HFq Hfr md
           (fun c => InvX D (p_funs p') teq c /\ (md <> Async -> bufs_empty c))
           (fun c => InvX D (p_funs q') teq c /\ (md <> Async -> bufs_empty c))).
  - intros c [H _]. apply H.
  - intros c ch d [H1 H2] Hs. destruct md.
    + destruct (invx_step D (p_funs p') teq Hlaws (proj1 Hst) HFa HFn Async c ch d eq_refl H1 ltac:(discriminate) Hs) as [G _]. split; [exact G | intros N; contradiction].
    + destruct (invx_step D (p_funs p') teq Hlaws (proj1 Hst) HFa HFn Sync c ch d eq_refl H1 (fun _ => H2 ltac:(discriminate)) Hs) as [G1 G2]. split; [exact G1 | intros _; apply G2; reflexivity].
    + destruct (invx_step_np D (p_funs p') teq Hlaws (proj1 Hst) HFa HFn c ch d H1 (H2 ltac:(discriminate)) Hs) as [G1 G2]. split; [exact G1 | intros _; exact G2].
  - intros c [H _]. apply H.
  - intros c ch d [H1 H2] Hs. destruct md.
    + destruct (invx_step D (p_funs q') teq Hlaws HFq HFa' HFn' Async c ch d eq_refl H1 ltac:(discriminate) Hs) as [G _]. split; [exact G | intros N; contradiction].
    + destruct (invx_step D (p_funs q') teq Hlaws HFq HFa' HFn' Sync c ch d eq_refl H1 (fun _ => H2 ltac:(discriminate)) Hs) as [G1 G2]. split; [exact G1 | intros _; apply G2; reflexivity].
    + destruct (invx_step_np D (p_funs q') teq Hlaws HFq HFa' HFn' c ch d H1 (H2 ltac:(discriminate)) Hs) as [G1 G2]. split; [exact G1 | intros _; exact G2].
  - split; [exact HI | intros _; apply bufs_empty_init].
  - split; [exact HI' | intros _; apply bufs_empty_init].
  - apply init_crel. exact Hpr.
Qed.
