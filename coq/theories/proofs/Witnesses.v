(* proofs/Witnesses.v — concrete programs (given as TEXTS, parsed by the model of the parser) used by
   props/C05.v and props/C06.v: the K1 witness and a non-vacuity example. *)
Require Import Grits.Base Grits.ModeDefs Grits.Modes Grits.STypes Grits.Forms Grits.Subst Grits.Infer
               Grits.TcDeps Grits.Expand Grits.Tc Grits.TcTop
               Grits.spec.Linear Grits.spec.Sequents Grits.spec.Indep.

Definition empty_prog : program := {| p_procs := []; p_assumed := []; p_funs := []; p_types := [] |}.
Definition parsed (s : string) : program := match parse_string s with POk p => p | _ => empty_prog end.
Definition accepted (p : program) : program := match typecheck p with Accept p' => p' | _ => empty_prog end.

(* K1: a top-level process of mode aff that waits for a linear one *)
Definition k1_text : string := "prc[a] : aff 1 = wait b; close self prc[b] : lin 1 = close self".
Definition k1_p : program := parsed k1_text.
Definition k1_p' : program := accepted k1_p.

Lemma k1_parses : parse_string k1_text = POk k1_p.
Proof. vm_compute. reflexivity. Qed.
Lemma k1_accepted : typecheck k1_p = Accept k1_p'.
Proof. vm_compute. reflexivity. Qed.

Lemma k1_root_not_independent :
  exists pd pd', In (pd, pd') (combine (p_procs k1_p) (p_procs k1_p')) /\ ~ independent (proc_root k1_p' pd pd').
Proof.
  exists (nth 0 (p_procs k1_p) {| pr_body := FPrint "" (FClose self_name); pr_providers := []; pr_type := None |}),
         (nth 0 (p_procs k1_p') {| pr_body := FPrint "" (FClose self_name); pr_providers := []; pr_type := None |}).
  split.
  - vm_compute. left. reflexivity.
  - intros (t & Et & H).
    assert (Hb : alookup "b" (sq_ctx (proc_root k1_p'
              (nth 0 (p_procs k1_p) {| pr_body := FPrint "" (FClose self_name); pr_providers := []; pr_type := None |})
              (nth 0 (p_procs k1_p') {| pr_body := FPrint "" (FClose self_name); pr_providers := []; pr_type := None |})))
            = Some (Some (TUnit Lin))) by (vm_compute; reflexivity).
    destruct (H _ _ Hb) as (t' & E & Hd). inversion E; subst t'.
    vm_compute in Et. inversion Et; subst t. vm_compute in Hd. discriminate Hd.
Qed.

(* a program that uses drop, split, a cut with a call, a cut with an axiom body, and a case *)
Definition ex_text : string :=
  "type B = rep +{t : 1, f : 1} " ^^
  "let neg(x : B) : B = case x ( t<c> => drop c; d : rep 1 <- new close self; self.f<d> " ^^
  "| f<c> => drop c; d : rep 1 <- new close self; self.t<d> ) " ^^
  "let dup(x : B) : rep 1 = <y, z> <- split x; u : B <- new neg(y); drop u; drop z; close self".
Definition ex_p : program := parsed ex_text.
Definition ex_p' : program := accepted ex_p.
Lemma ex_parses : parse_string ex_text = POk ex_p.
Proof. vm_compute. reflexivity. Qed.
Lemma ex_accepted : typecheck ex_p = Accept ex_p'.
Proof. vm_compute. reflexivity. Qed.
Lemma ex_uninit : uninit_prog ex_p = true.
Proof. vm_compute. reflexivity. Qed.
Lemma ex_moded : env_moded_b (p_types ex_p) = true.
Proof. vm_compute. reflexivity. Qed.
Lemma ex_nontrivial : length (p_funs ex_p) = 2 /\ length (p_funs ex_p') = 2.
Proof. vm_compute. auto. Qed.
(* the two control paths of `neg` use x once each; `dup` has one path; a name that is not in scope
   is never used *)
Lemma ex_paths :
  map (fun fd => uses None "x" (fn_body fd)) (p_funs ex_p) = [[1; 1]; [1]] /\
  map (fun fd => uses None "q" (fn_body fd)) (p_funs ex_p) = [[0; 0]; [0]].
Proof. vm_compute. auto. Qed.
(* number of sequents in the derivations of the two definitions *)
Lemma ex_sequents :
  map (fun ff => length (fun_sequents ex_p ex_p' (fst ff) (snd ff))) (combine (p_funs ex_p) (p_funs ex_p')) = [9; 6].
Proof. vm_compute. reflexivity. Qed.

Lemma k1_refutes :
  exists p p' pd pd',
    parse_string k1_text = POk p /\ typecheck p = Accept p' /\
    In (pd, pd') (combine (p_procs p) (p_procs p')) /\ ~ independent (proc_root p' pd pd').
Proof.
  destruct k1_root_not_independent as (pd & pd' & Hin & Hn).
  exists k1_p, k1_p', pd, pd'. exact (conj k1_parses (conj k1_accepted (conj Hin Hn))).
Qed.
