(* NPSync.v — PARTIAL results towards the agreement of the non-polarized print multiset with the polarized
   one for contraction-free, drop-free programs WITH forwards (the full statement is NOT proved):
   the steps of the non-polarized mode that ARE steps of the synchronous polarized mode, as equalities:
     * a Run step or a Rendezvous whose acting processes are not forwards (and not at a drop);
     * the control message Control f t of a forward f of NEGATIVE polarity delivered while t waits to
       receive on its provider channel: it is the synchronous rendezvous in which f hands its forward
       request to t (same resulting configuration).
   What is missing for the theorem: (1) a forward of POSITIVE polarity absorbed by Control stays a process in
   the polarized modes until one message has passed through it (then the client channel is left open
   there and closed here: the configurations agree only up to the closed flag of a dead channel);
   (2) Control delivered at other moments (the target at an internal step or at a client-side action)
   has to be postponed by the commutations of NPJoin.v to one of the two moments above, and that
   every completed run can be so rearranged needs a progress argument for the mode. *)
From stdpp Require Import gmap strings.
Require Import Grits.Base Grits.ModeDefs Grits.Modes Grits.STypes Grits.Forms Grits.Subst Grits.TcDeps Grits.Expand
               Grits.Runtime Grits.RuntimeFootprint Grits.spec.RtTyping Grits.spec.Topo.
Require Import Grits.proofs.StepErrors Grits.proofs.RtSafety Grits.proofs.RtSafetyNP Grits.proofs.RuntimeFacts Grits.proofs.AsyncSync
               Grits.proofs.InvNP.

Section NPSync.
Variable D : tenv.
Variable F : list fundef.

Lemma nonfwd_action pp : body_is_fwd (pr_body0 pp) = false -> action_of NP D pp = action_of Sync D pp.
Proof. intros H. rewrite action_of_sync. by apply action_np_nonfwd. Qed.

(* Run: the same step, when the process is not a forward and not at a drop *)
Lemma np_run_is_sync c p pp : procs c !! p = Some pp ->
  body_is_fwd (pr_body0 pp) = false -> is_drop (pr_body0 pp) = false ->
  step NP D F c (Run p) = step Sync D F c (Run p).
Proof.
  intros Hp Hf Hd. cbn [step]. rewrite Hp, (nonfwd_action pp Hf), internal_effect_sync, (internal_np_nondrop F p pp Hd).
  by destruct (action_of Sync D pp).
Qed.

(* Rendezvous: the same step, when neither process is a forward *)
Lemma np_rdv_is_sync c s r ps pr : procs c !! s = Some ps -> procs c !! r = Some pr ->
  body_is_fwd (pr_body0 ps) = false -> body_is_fwd (pr_body0 pr) = false ->
  step NP D F c (Rendezvous s r) = step Sync D F c (Rendezvous s r).
Proof.
  intros Hs Hr Hfs Hfr. cbn [step]. destruct (bool_decide (s = r)); [done|]. by rewrite Hs, Hr, (nonfwd_action ps Hfs), (nonfwd_action pr Hfr).
Qed.

(* the control message of a negative forward, delivered while its target waits on its provider channel,
   is the synchronous rendezvous of the forward request *)
Lemma np_ctl_is_sync_neg c f t to from nf nxf n0 body nx k st :
  f <> t -> procs c !! f = Some (Proc [nf] (FFwd to from false) nxf) -> is_self to = true -> chan from = Some k ->
  fwd_polarity D from = Ok Neg ->
  procs c !! t = Some (Proc [n0] body nx) -> chan n0 = Some k -> body_is_fwd body = false ->
  action_of Sync D (Proc [n0] body nx) = ARecv k -> chans c !! k = Some st -> ch_closed st = false ->
  step NP D F c (Control f t) = step Sync D F c (Rendezvous f t).
Proof.
  intros Hft Hf Hto Hfrom Hpol Hpt Hk Hnf Hact Hch Hcl.
  assert (HactN : action_of NP D (Proc [n0] body nx) = ARecv k) by (rewrite nonfwd_action; done).
  cbn [step negb is_np orb]. rewrite bool_decide_eq_false_2 by done. rewrite Hf, Hpt.
  assert (EaN : action_of NP D (Proc [nf] (FFwd to from false) nxf) = ACtrl k [nf]).
  { unfold action_of. cbn. rewrite Hto. cbn. by rewrite Hfrom. }
  assert (EaS : action_of Sync D (Proc [nf] (FFwd to from false) nxf) = ASend k (Msg RFWD zero_name zero_name [nf] "")).
  { unfold action_of. cbn. rewrite Hto. cbn. rewrite Hpol, Hfrom. done. }
  rewrite EaN, EaS, Hact.
  assert (Hsc : self_chan (Proc [n0] body nx) = Some k) by (unfold self_chan, prov0; cbn; exact Hk).
  rewrite Hsc. rewrite !bool_decide_eq_true_2 by done.
  assert (Hpoll : polls_control NP D (Proc [n0] body nx) = true) by (unfold polls_control; by rewrite HactN).
  rewrite Hpoll. cbn [andb].
  rewrite Hch, Hcl. unfold on_message. cbn [pr_body0 m_rule rule_eqb andb negb].
  destruct body; try discriminate Hnf; cbn [eff_step pr_provs tl app firstn]; reflexivity.
Qed.
End NPSync.
