(* proofs/FormOpsAgree.v — the translation of /repo/process/form.go made on THIS run
   (gen/FormOps.v, by `probe formops`) means what the hand-written model of Subst.v / Forms.v says:
   proof obligations re-checked against the current Go source on every run.  All proofs unfold
   `FormOps.table` by computation; none depends on what the table contains beyond that. *)
Require Import Grits.Base Grits.ModeDefs Grits.STypes Grits.Forms Grits.Subst Grits.FormIR Grits.gen.FormOps.

(* the struct declarations are the ones the interpreters of FormIR.v are written for *)
Lemma formops_structs : t_structs table = expected_structs.
Proof. reflexivity. Qed.

(* ---------------- Substitute ---------------- *)

Lemma formops_subst_wf : subst_table_ok table = true.
Proof. vm_compute. reflexivity. Qed.

Ltac split_name_equal :=
  repeat match goal with |- context [name_equal ?a ?b] => destruct (name_equal a b) end; try reflexivity.

Lemma formops_subst_both : forall old new,
  (forall f, ir_subst table old new f = subst old new f) /\
  (forall b, ir_subst_brs table old new b = subst_brs old new b).
Proof.
  intros old new. apply form_branches_ind; intros.
  all: cbn [ir_subst ir_subst_brs subst subst_brs].
  all: repeat match goal with H : ir_subst _ _ _ _ = _ |- _ => rewrite H; clear H end.
  all: repeat match goal with H : ir_subst_brs _ _ _ _ = _ |- _ => rewrite H; clear H end.
  all: unfold run_subst, smethod; cbn -[name_equal name_subst subst subst_brs].
  all: split_name_equal.
Qed.

Lemma formops_subst_agrees : forall old new f, ir_subst table old new f = subst old new f.
Proof. intros old new. apply (proj1 (formops_subst_both old new)). Qed.

Lemma formops_subst_brs_agrees : forall old new b, ir_subst_brs table old new b = subst_brs old new b.
Proof. intros old new. apply (proj2 (formops_subst_both old new)). Qed.

(* ---------------- the list helpers (appendIfNotSelf, removeBoundName, nameExists, mergeTwoNamesList) ---------------- *)
Lemma formops_helpers_wf : helpers_ok table = true.
Proof. vm_compute. reflexivity. Qed.

Lemma alookup_aremove_neb {V} k x (m : list (string * V)) : String.eqb x k = false -> alookup x (aremove k m) = alookup x m.
Proof.
  intros H. induction m as [|[k' v] m IH]; cbn; [reflexivity|].
  destruct (String.eqb k k') eqn:E.
  - apply String.eqb_eq in E; subst k'. rewrite H. exact IH.
  - cbn. rewrite IH. reflexivity.
Qed.

Lemma formops_append_agrees n l : ir_append_if_not_self table n l = append_if_not_self n l.
Proof.
  unfold ir_append_if_not_self, call2, append_if_not_self. cbn. unfold run_helper. cbn.
  destruct (is_self n); reflexivity.
Qed.

Lemma formops_exists_agrees l c : ir_name_exists table l c = name_exists l c.
Proof.
  unfold ir_name_exists, call1, name_exists. cbn -[name_equal]. unfold run_helper. cbn -[name_equal hloop].
  match goal with |- context [hloop ?B "n" l ?e0] =>
    assert (L : forall xs e, hN "check" e = c ->
                snd (hloop B "n" xs e) = if existsb (fun n => name_equal n c) xs then Some (HVBool true) else None);
    [| specialize (L l e0 eq_refl); destruct (hloop B "n" l e0) as [e' o] ]
  end.
  - induction xs as [|n r IH]; intros e He; cbn -[name_equal]; [reflexivity|].
    unfold hN at 1 2. cbn -[name_equal].
    rewrite alookup_aremove_neb by reflexivity. fold (hN "check" e). rewrite He.
    destruct (name_equal n c); cbn -[name_equal]; [reflexivity|].
    apply IH. unfold hN. cbn. rewrite alookup_aremove_neb by reflexivity. exact He.
  - cbn in L. subst o. destruct (existsb _ l); reflexivity.
Qed.

Lemma formops_remove_agrees l b : ir_remove_bound table l b = remove_bound l b.
Proof.
  unfold ir_remove_bound, call2, remove_bound. cbn -[name_equal]. unfold run_helper. cbn -[name_equal hloop].
  match goal with |- context [hloop ?B "n" l ?e0] =>
    assert (L : forall xs e, hN "boundName" e = b ->
                exists e', hloop B "n" xs e = (e', None) /\
                hL "freeNames" e' = hL "freeNames" e ++ filter (fun n => negb (name_equal n b)) xs);
    [| destruct (L l e0 eq_refl) as [e' [L1 L2]]; rewrite L1 ]
  end.
  - induction xs as [|n r IH]; intros e He; cbn -[name_equal]; [exists e; rewrite app_nil_r; split; reflexivity|].
    unfold hN at 1 2. cbn -[name_equal].
    rewrite alookup_aremove_neb by reflexivity. fold (hN "boundName" e). rewrite He.
    destruct (name_equal n b); cbn -[name_equal].
    + match goal with |- context [hloop _ "n" r ?e1] => destruct (IH e1) as [e' [I1 I2]] end.
      { unfold hN. cbn. rewrite alookup_aremove_neb by reflexivity. exact He. }
      exists e'. split; [exact I1|exact I2].
    + match goal with |- context [hloop _ "n" r ?e1] => destruct (IH e1) as [e' [I1 I2]] end.
      { unfold hN. cbn. rewrite alookup_aremove_neb by reflexivity. exact He. }
      exists e'. split; [exact I1|]. etransitivity; [exact I2|]. unfold hL, hN. cbn. rewrite <- app_assoc. reflexivity.
  - cbn. exact L2.
Qed.

Lemma formops_merge_agrees a b : ir_merge_names table a b = merge_names a b.
Proof.
  unfold ir_merge_names, call2. cbn -[name_equal call1]. unfold run_helper. cbn -[name_equal hloop call1].
  match goal with |- context [hloop ?B "n" b ?e0] => remember B as B0 eqn:EB; remember e0 as e00 eqn:E0 end.
  assert (HB : forall e n, B0 (mkHenv (he_l e) (aset "n" n (he_n e))) =
                 if name_exists (hL "names1" e) n then (mkHenv (he_l e) (aset "n" n (he_n e)), None)
                 else (mkHenv (aset "names1" (hL "names1" e ++ [n]) (he_l e)) (aset "n" n (he_n e)), None)).
  { intros e n. subst B0. cbn beta.
    change (call1 table "nameExists") with (ir_name_exists table). rewrite formops_exists_agrees.
    unfold hL, hN. cbn -[name_equal name_exists].
    destruct (name_exists _ n); reflexivity. }
  assert (L : forall xs e, exists e', hloop B0 "n" xs e = (e', None) /\ hL "names1" e' = merge_names (hL "names1" e) xs).
  { induction xs as [|n r IH]; intros e; [exists e; split; reflexivity|].
    cbn [hloop merge_names]. rewrite HB.
    destruct (name_exists (hL "names1" e) n).
    - destruct (IH (mkHenv (he_l e) (aset "n" n (he_n e)))) as [e' [I1 I2]].
      exists e'. split; [exact I1|exact I2].
    - match goal with |- context [hloop _ "n" r ?e1] => destruct (IH e1) as [e' [I1 I2]] end.
      exists e'. split; [exact I1|]. etransitivity; [exact I2|]. unfold hL. cbn. reflexivity. }
  destruct (L b e00) as [e' [L1 L2]]. rewrite L1. cbn. rewrite L2. subst e00. reflexivity.
Qed.

(* ---------------- FreeNames ---------------- *)

Fixpoint per_branch (b : branches) : list (list name) :=
  match b with BrNil => [] | BrCons _ p k r => remove_bound (free_names k) p :: per_branch r end.

Lemma free_names_brs_fold b : forall acc, free_names_brs acc b = fold_left merge_names (per_branch b) acc.
Proof. induction b as [|l p k r IH]; intros acc; cbn [free_names_brs per_branch fold_left]; [reflexivity|apply IH]. Qed.

Lemma fold_fn_shape {A} (F : list (string * list name) -> A -> list (string * list name)) (g : list name -> A -> list name) :
  (forall acc x, F [("fn", acc)] x = [("fn", g acc x)]) ->
  forall xs acc, fold_left F xs [("fn", acc)] = [("fn", fold_left g xs acc)].
Proof. intros H. induction xs as [|x r IH]; intros acc; cbn [fold_left]; [reflexivity|]. rewrite H. apply IH. Qed.

Lemma formops_free_both :
  (forall f, ir_free_names table f = free_names f) /\
  (forall b, ir_free_names_brs table b = per_branch b).
Proof.
  apply form_branches_ind; intros.
  all: cbn [ir_free_names ir_free_names_brs free_names per_branch].
  all: repeat match goal with H : ir_free_names _ _ = _ |- _ => rewrite H; clear H end.
  all: repeat match goal with H : ir_free_names_brs _ _ = _ |- _ => rewrite H; clear H end.
  all: unfold run_free; cbn -[ir_append_if_not_self ir_remove_bound ir_merge_names free_names per_branch].
  all: unfold run_fmethod; cbn -[ir_append_if_not_self ir_remove_bound ir_merge_names free_names per_branch].
  all: rewrite ?formops_append_agrees, ?formops_remove_agrees, ?formops_merge_agrees.
  all: try reflexivity.
  - change (aset "fn" (append_if_not_self from []) (aset "fn" [] [])) with [("fn", append_if_not_self from [])].
    rewrite (fold_fn_shape _ merge_names).
    + unfold fvar. cbn. symmetry. apply free_names_brs_fold.
    + intros acc x. unfold aset, fvar. cbn -[ir_merge_names ir_append_if_not_self]. rewrite formops_merge_agrees. reflexivity.
  - change (aset "fn" [] []) with [("fn", @nil name)].
    rewrite (fold_fn_shape _ (fun acc n => append_if_not_self n acc)).
    + reflexivity.
    + intros acc x. unfold aset, fvar. cbn -[ir_merge_names ir_append_if_not_self]. rewrite formops_append_agrees. reflexivity.
Qed.

Lemma formops_free_names_agrees : forall f, ir_free_names table f = free_names f.
Proof. apply (proj1 formops_free_both). Qed.
Lemma formops_free_names_brs_agrees : forall acc b,
  fold_left (ir_merge_names table) (ir_free_names_brs table b) acc = free_names_brs acc b.
Proof.
  intros acc b. rewrite (proj2 formops_free_both), free_names_brs_fold.
  generalize (per_branch b). intros ls. revert acc. induction ls as [|x r IH]; intros acc; cbn [fold_left]; [reflexivity|].
  rewrite formops_merge_agrees. apply IH.
Qed.

(* ---------------- FormHasContinuation, CopyForm ---------------- *)
Lemma formops_has_continuation_agrees : forall f, ir_has_continuation table f = has_continuation f.
Proof. destruct f; reflexivity. Qed.
Lemma formops_branch_has_continuation : ir_branch_has_continuation table = true.
Proof. reflexivity. Qed.

Lemma formops_copy_wf : copy_table_ok table = true.
Proof. vm_compute. reflexivity. Qed.

Lemma formops_copy_both :
  (forall f, ir_copy table f = copy_norm f) /\ (forall b, ir_copy_brs table b = copy_norm_brs b).
Proof.
  apply form_branches_ind; intros.
  all: cbn [ir_copy ir_copy_brs copy_norm copy_norm_brs].
  all: repeat match goal with H : ir_copy _ _ = _ |- _ => rewrite H; clear H end.
  all: repeat match goal with H : ir_copy_brs _ _ = _ |- _ => rewrite H; clear H end.
  all: try reflexivity.
Qed.

Lemma copy_norm_stable_both :
  (forall f, copy_stable f = true -> copy_norm f = f) /\ (forall b, copy_stable_brs b = true -> copy_norm_brs b = b).
Proof.
  apply form_branches_ind; intros; cbn [copy_norm copy_norm_brs copy_stable copy_stable_brs] in *;
    repeat match goal with H : (_ && _)%bool = true |- _ => apply andb_true_iff in H; destruct H end;
    repeat match goal with H : ?A -> _ = _, H' : ?A |- _ => rewrite (H H'); clear H end;
    try reflexivity.
  - destruct droppable; [discriminate|reflexivity].
  - destruct pty; [discriminate|reflexivity].
Qed.


Lemma formops_copy_agrees : forall f, ir_copy table f = copy_norm f.
Proof. apply (proj1 formops_copy_both). Qed.
Lemma formops_copy_identity : forall f, copy_stable f = true -> ir_copy table f = f.
Proof. intros f H. rewrite formops_copy_agrees. apply (proj1 copy_norm_stable_both f H). Qed.
