(* proofs/FormOpsAgree.v — the translation of /repo/process/form.go made on THIS run
   (gen/FormOps.v, by `probe formops`) means what the hand-written model of Subst.v / Forms.v says:
   proof obligations re-checked against the current Go source on every run.  All proofs unfold
   `FormOps.table` by computation; none depends on what the table contains beyond that. *)
Require Import Grits.Base Grits.ModeDefs Grits.STypes Grits.Forms Grits.Subst Grits.FormIR Grits.gen.FormOps.

(* the struct declarations are the ones the interpreters of FormIR.v are written for *)
Lemma formops_structs : t_structs table = expected_structs.
Proof. reflexivity. Qed.

(* ---------------- Substitute ---------------- *)

Lemma formops_subst_wf : subst_table_ok table = true.
Proof. vm_compute. reflexivity. Qed.

Ltac split_name_equal :=
  repeat match goal with |- context [name_equal ?a ?b] => destruct (name_equal a b) end; try reflexivity.

Lemma formops_subst_both : forall old new,
  (forall f, ir_subst table old new f = subst old new f) /\
  (forall b, ir_subst_brs table old new b = subst_brs old new b).
Proof.
  intros old new. apply form_branches_ind; intros.
  all: cbn [ir_subst ir_subst_brs subst subst_brs].
  all: repeat match goal with H : ir_subst _ _ _ _ = _ |- _ => rewrite H; clear H end.
  all: repeat match goal with H : ir_subst_brs _ _ _ _ = _ |- _ => rewrite H; clear H end.
  all: unfold run_subst, smethod; cbn -[name_equal name_subst subst subst_brs].
  all: split_name_equal.
Qed.

Lemma formops_subst_agrees : forall old new f, ir_subst table old new f = subst old new f.
Proof. intros old new. apply (proj1 (formops_subst_both old new)). Qed.

Lemma formops_subst_brs_agrees : forall old new b, ir_subst_brs table old new b = subst_brs old new b.
Proof. intros old new. apply (proj2 (formops_subst_both old new)). Qed.
