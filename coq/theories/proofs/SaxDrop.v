(* SaxDrop.v — C04, results half: WEAKENING.  The refinement of proofs/SaxRefine.v extended to programs
   with `drop` (no split, one provider name per process), Async mode, as a weak simulation into
   spec/Sax.v WITH its structural rules s_drop and s_gc:
     * `drop x; k`           one Sax step s_drop: the droppable forward the interpreter spawns IS the
                             pending request drop(x) (Sax.obj reads `fwd^drop self x` as SDrop x);
     * the droppable forward posts a GC request on a negative channel: zero Sax steps (the buffered
       GC message is the same object drop(x));
     * the droppable forward receives a positive message: s_gc on the message (its payload and
       continuation channels are dropped in turn);
     * a process receives the GC request on its own channel: s_gc on the process (every channel it
       uses is dropped in turn) — weakening reaches every dependency;
     * every other step: `refines_sax01_at` (linear rules).
   The side conditions come from a8's invariant InvX (typed + Topo + ns_ok + NoFd) and the fragment
   invariant DropCfg (one provider per process, no split), proved inductive here. *)
From stdpp Require Import gmap strings.
Require Import Grits.Base Grits.ModeDefs Grits.Modes Grits.STypes Grits.Forms Grits.Subst Grits.TcDeps Grits.Expand
               Grits.Tc Grits.TcTop Grits.Runtime.
Require Import Grits.spec.RtTyping Grits.spec.Topo Grits.proofs.RuntimeFacts Grits.proofs.RtSafety Grits.proofs.InvAll.
Require Import Grits.spec.Sax Grits.proofs.Causality Grits.proofs.SaxRefine Grits.proofs.SaxInv Grits.proofs.SaxTyped.

(* ------------------------------------------------------------------ spawned processes as objects *)
(* a spawned process is read without its identifier when it has one provider or is a forward *)
Definition plain (provs : list name) (body : form) : Prop := (exists n, provs = [n]) \/ is_fwd body = true.
Lemma proc_obj_plain q provs body nx : plain provs body -> proc_obj q (Proc provs body nx) = pobj provs body.
Proof.
  unfold proc_obj, pobj. cbn. intros [[n ->]|Hf]; [done|]. destruct provs as [|n1 [|n2 [|]]]; try done. by destruct body.
Qed.

Lemma add_spawns_fst_delete self q ss : forall next pm, q <> self ++ [next] -> (forall i, q <> self ++ [(next + i)%nat]) ->
  delete q (add_spawns self next ss pm).1 = (add_spawns self next ss (delete q pm)).1.
Proof.
  induction ss as [|s ss IH]; intros next pm Hq Hall; cbn; [done|].
  rewrite IH.
  - by rewrite delete_insert_ne.
  - specialize (Hall 1%nat). by replace (next + 1)%nat with (S next) in Hall by lia.
  - intros i. specialize (Hall (S i)). by replace (next + S i)%nat with (S next + i)%nat in Hall by lia.
Qed.

Lemma add_spawns_objs self ss : forall next pm,
  Forall (fun s => plain (sp_provs s) (sp_body s)) ss ->
  (forall i, (i < length ss)%nat -> pm !! (self ++ [(next + i)%nat]) = None) ->
  procs_objs (add_spawns self next ss pm).1 ≡ₚ spawn_objs ss ++ procs_objs pm.
Proof.
  induction ss as [|s ss IH]; intros next pm Hpl Hfresh; cbn; [done|].
  apply Forall_cons_iff in Hpl as [Hs Hpl].
  rewrite IH; [|done|].
  - rewrite procs_objs_insert_fresh.
    + rewrite (proc_obj_plain _ _ _ _ Hs). unfold spawn_objs. cbn. rewrite <- !app_assoc. apply Permutation_app_swap_app.
    + specialize (Hfresh 0%nat). rewrite Nat.add_0_r in Hfresh. apply Hfresh. cbn. lia.
  - intros i Hi. rewrite lookup_insert_ne.
    + specialize (Hfresh (S i)). replace (next + S i)%nat with (S next + i)%nat in Hfresh by lia. apply Hfresh. cbn. lia.
    + intros E. apply app_inv_head in E. injection E. lia.
Qed.

Lemma foldr_new_lookup cs : forall (cm : gmap cid chan_st) k st,
  foldr (fun ch m => <[ ch := empty_chan ]> m) cm cs !! k = Some st -> st = empty_chan \/ cm !! k = Some st.
Proof.
  induction cs as [|c cs IH]; intros cm k st; cbn; [auto|].
  intros [[_ <-]|[_ H]]%lookup_insert_Some; [auto|by apply IH].
Qed.

Lemma chans_objs_new_list cs : forall cm, (forall k, k ∈ cs -> cm !! k = None) ->
  chans_objs (foldr (fun ch m => <[ ch := empty_chan ]> m) cm cs) ≡ₚ chans_objs cm.
Proof.
  induction cs as [|c cs IH]; intros cm Hn; cbn; [done|].
  rewrite chans_objs_insert. cbn.
  set (m' := foldr (fun ch m => <[ ch := empty_chan ]> m) cm cs) in *.
  destruct (m' !! c) as [st|] eqn:Hc.
  - assert (chans_objs m' ≡ₚ chans_objs cm) as <- by (apply IH; intros; apply Hn; by apply elem_of_list_further).
    rewrite (chans_objs_lookup m' c st Hc). apply foldr_new_lookup in Hc as [->|Hc]; [done|].
    rewrite Hn in Hc by apply elem_of_list_here. done.
  - rewrite delete_notin by done. apply IH. intros; apply Hn; by apply elem_of_list_further.
Qed.

(* an effect that ends the acting process and spawns *)
Lemma alpha_finish c1 self p ss cs :
  procs c1 !! self = Some p -> Forall (fun s => plain (sp_provs s) (sp_body s)) ss ->
  (forall i, (i < length ss)%nat -> procs c1 !! (self ++ [(pr_next p + length cs + i)%nat]) = None) ->
  (forall k, k ∈ cs -> chans c1 !! k = None) ->
  α (apply_effect c1 self p (Eff Finish ss cs [] [])) ≡ₚ
  spawn_objs ss ++ procs_objs (delete self (procs c1)) ++ chans_objs (chans c1).
Proof.
  intros Hp Hpl Hfresh Hcs. unfold α, apply_effect. cbn.
  destruct (add_spawns self (pr_next p + length cs) ss (procs c1)) as [pm next1] eqn:Hadd. cbn.
  assert (pm = (add_spawns self (pr_next p + length cs) ss (procs c1)).1) as -> by (by rewrite Hadd).
  rewrite add_spawns_fst_delete; [|apply self_ne_snoc|intros i; apply self_ne_snoc].
  rewrite add_spawns_objs; [|done|].
  - rewrite chans_objs_new_list by done. by rewrite <- app_assoc.
  - intros i Hi. apply lookup_delete_None. right. by apply Hfresh.
Qed.

(* the droppable forwards spawned for a list of (initialised) names are the drop requests on them *)
Lemma droppable_fwds_spec self : forall cl p ss cs p',
  droppable_fwds self p cl = (ss, cs, p') -> Forall (fun n => is_Some (chan n)) cl ->
  length ss = length cl /\ cs = map (fun i => self ++ [(pr_next p + i)%nat]) (seq 0 (length cl)) /\
  spawn_objs ss = map SDrop (names_cids cl) /\ Forall (fun s => plain (sp_provs s) (sp_body s)) ss.
Proof.
  induction cl as [|n cl IH]; intros p ss cs p' H Hall; cbn in H.
  - simplify_eq. split_and!; try done.
  - unfold droppable_fwd, fresh_chan in H. cbn in H.
    destruct (droppable_fwds self _ cl) as [[ss1 cs1] p2] eqn:Hrec. simplify_eq.
    apply Forall_cons_iff in Hall as [[b Hb] Hall].
    destruct (IH _ _ _ _ Hrec Hall) as (Hl & Hcs & Hobjs & Hpl). cbn in Hcs. split_and!.
    + cbn. by rewrite Hl.
    + cbn. rewrite Nat.add_0_r. f_equal. rewrite Hcs, <- seq_shift, map_map. apply map_ext. intros i. f_equal. f_equal. lia.
    + unfold spawn_objs in *. cbn. rewrite Hobjs. unfold names_cids. cbn.
      unfold name_cids. by rewrite Hb.
    + constructor; [left; cbn; eauto|done].
Qed.

(* ------------------------------------------------------------------ freshness from ns_ok *)
Lemma ns_fresh_proc c self p m : ns_ok c -> procs c !! self = Some p -> (pr_next p <= m)%nat ->
  procs c !! (self ++ [m]) = None.
Proof.
  intros Hns Hp Hm. destruct (procs c !! (self ++ [m])) eqn:Hq; [|done]. exfalso.
  destruct (Hns self p Hp) as [H _]. specialize (H (self ++ [m]) ltac:(eauto) m [] eq_refl). lia.
Qed.
Lemma ns_fresh_chan c self p m : ns_ok c -> procs c !! self = Some p -> (pr_next p <= m)%nat ->
  chans c !! (self ++ [m]) = None.
Proof.
  intros Hns Hp Hm. destruct (chans c !! (self ++ [m])) eqn:Hq; [|done]. exfalso.
  destruct (Hns self p Hp) as [_ H]. specialize (H (self ++ [m]) ltac:(eauto) m [] eq_refl). lia.
Qed.

Section steps.
Context (D : tenv) (F : list fundef).

(* zero or one step of the reference semantics, structural rules included *)
Definition sax_stepS01 (C : sconfig) (ls : list string) (C' : sconfig) : Prop :=
  (ls = [] /\ C ≡ₚ C') \/ sax_step F true C ls C'.

Lemma sax_step01_S C ls C' : sax_step01 F C ls C' -> sax_stepS01 C ls C'.
Proof.
  intros [H|(L & R & Δ & H1 & H2 & [H3|[? _]])]; [by left| |done].
  right. exists L, R, Δ. split_and!; try done. by left.
Qed.
Lemma sax_stepS01_steps C ls C' : sax_stepS01 C ls C' -> sax_steps F true C ls C'.
Proof.
  intros [[-> Hp]|Hs]; [by apply sax_refl|]. rewrite <- (app_nil_r ls). eapply sax_trans; [done|by apply sax_refl].
Qed.
Lemma sax_oneS L R Δ ls C C' :
  C ≡ₚ L ++ Δ -> C' ≡ₚ R ++ Δ -> sred_str Δ L ls R -> sax_step F true C ls C'.
Proof. intros HC HC' Hr. exists L, R, Δ. split_and!; try done. by right. Qed.

(* weakening: `drop x; k` *)
Lemma refine_drop c self n a x k next b :
  procs c !! self = Some (Proc [n] (FDrop x k) next) -> chan n = Some a ->
  is_self x = false -> chan x = Some b -> ns_ok c ->
  sax_step F true (α c) []
    (α (apply_effect c self (Proc [n] (FDrop x k) next)
          (Eff (Continue (set_body (Proc [n] (FDrop x k) (S next)) k))
               [Spawn [mkName (ident x) false (pol x) (nty x) (Some (self ++ [next]))]
                      (FFwd (mkName (ident x) true (pol x) (nty x) None) x true)]
               [self ++ [next]] [] []))).
Proof.
  intros Hp Hn Hx Hb Hns.
  assert (α c ≡ₚ [SProc a (FDrop x k)] ++ procs_objs (delete self (procs c)) ++ chans_objs (chans c)) as Hc.
  { rewrite (alpha_lookup c self _ Hp). unfold proc_obj, pobj. cbn. by rewrite Hn. }
  eapply (sax_oneS [SProc a (FDrop x k)] [obj a k; SDrop b]); [exact Hc| |by apply s_drop].
  unfold α, apply_effect. cbn.
  rewrite procs_objs_insert. rewrite delete_insert_ne by apply self_ne_snoc.
  rewrite procs_objs_insert_fresh.
  2:{ apply lookup_delete_None. right. eapply (ns_fresh_proc c self _ _ Hns Hp). cbn. lia. }
  rewrite chans_objs_new by (eapply (ns_fresh_chan c self _ _ Hns Hp); cbn; lia).
  unfold proc_obj, pobj. cbn. rewrite Hn, Hb. cbn. done.
Qed.

(* a step that ends the acting process, consumes the message on k and spawns: one structural step *)
Lemma refine_finish c self p k st m ss cs L :
  procs c !! self = Some p -> chans c !! k = Some st -> ch_buf st = Some m -> ns_ok c ->
  cs = map (fun i => self ++ [(pr_next p + i)%nat]) (seq 0 (length cs)) ->
  Forall (fun s => plain (sp_provs s) (sp_body s)) ss ->
  L ≡ₚ proc_obj self p ++ msg_obj k m ->
  sred_str (procs_objs (delete self (procs c)) ++ chans_objs (delete k (chans c))) L [] (spawn_objs ss) ->
  sax_step F true (α c) [] (α (apply_effect (put_msg c k st None) self p (Eff Finish ss cs [] []))).
Proof.
  intros Hp Hk Hb Hns Hcs Hpl HL Hr. eapply sax_oneS; [| |exact Hr].
  - rewrite (alpha_lookup c self p Hp), (chans_objs_lookup _ k st Hk), HL. unfold chan_obj. rewrite Hb.
    rewrite <- !app_assoc. f_equiv. rewrite !app_assoc. f_equiv. apply Permutation_app_comm.
  - rewrite alpha_finish; [| done | done | |].
    + cbn [procs chans put_msg]. rewrite chans_objs_insert. cbn. done.
    + intros i Hi. cbn [procs put_msg]. eapply (ns_fresh_proc c self p _ Hns Hp). lia.
    + intros k' Hk'. rewrite Hcs in Hk'. apply elem_of_list_In, in_map_iff in Hk' as (i & <- & _).
      cbn [chans put_msg]. rewrite lookup_insert_ne.
      * eapply (ns_fresh_chan c self p _ Hns Hp). lia.
      * intros E. pose proof (ns_fresh_chan c self p (pr_next p + i) Hns Hp ltac:(lia)) as H0. assert (chans c !! k = None) as H1 by (rewrite E; exact H0). rewrite H1 in Hk. done.
Qed.
End steps.

(* ------------------------------------------------------------------ the fragment: weakening, no contraction *)
Fixpoint nosplit (f : form) : bool :=
  match f with
  | FRecv _ _ _ k | FWait _ k | FShift _ _ k | FPrint _ k | FDrop _ k => nosplit k
  | FCase _ bs => nosplit_brs bs
  | FNew _ b k => nosplit b && nosplit k
  | FSplit _ _ _ _ => false
  | _ => true
  end
with nosplit_brs (b : branches) : bool :=
  match b with BrNil => true | BrCons _ _ k r => nosplit k && nosplit_brs r end.

Record DropCfg (c : config) : Prop := {
  dc_procs : forall q pp, procs c !! q = Some pp -> nosplit (pr_body0 pp) = true /\ exists n, pr_provs pp = [n];
  dc_msgs : forall k st m, chans c !! k = Some st -> ch_buf st = Some m -> m_rule m = RFWD -> exists n, m_provs m = [n]
}.

Section typed_steps.
Variable D : tenv.
Variable F : list fundef.
Variable teq : sty -> sty -> Prop.
Hypothesis Hteq : teq_laws D teq.
Hypothesis HF : funs_typed D F teq.

Lemma chan_ty_init Δ n t : chan_ty teq Δ n t -> is_Some (chan n).
Proof.
  intros (_ & _ & H). destruct (chan n); [eauto|]. destruct H as (_ & t' & H & _). by rewrite lookup_empty in H.
Qed.

(* where a process receives: its own channel at a negative type, or a client channel at a positive one;
   a process never listens on the channel it provides as a client (rank of Topo) *)
Lemma recv_polarity Δ c self p k :
  cfg_typed D F teq Δ c -> Topo c -> procs c !! self = Some p -> action_of Async D p = ARecv k ->
  exists T, Δ !! k = Some T /\
    ((own_chan p k /\ pol_of_ty D T Neg) \/ (k ∈ form_chans (pr_body0 p) /\ pol_of_ty D T Pos)).
Proof.
  intros Hc Ht Hp Hact.
  pose proof (typed_action D F teq Hteq HF Δ p (ct_procs _ _ _ _ _ Hc self p Hp)) as Hv. rewrite Hact in Hv.
  by inversion Hv as [|k' _ Hside _| |]; subst.
Qed.

Lemma own_not_client c self p k : Topo c -> procs c !! self = Some p -> own_chan p k -> k ∈ form_chans (pr_body0 p) -> False.
Proof.
  intros Ht Hp (n & Hpv & Hn) Hin. destruct (topo_rank c Ht) as (rk & M & _ & Hlt).
  assert (rk k < rk k)%nat; [|lia]. apply (Hlt (OProc self p) k k Hp); [|done].
  cbn. rewrite Hpv. cbn. rewrite Hn. apply elem_of_list_here.
Qed.

(* a GC request is typed at a negative type: it reaches the provider, on its own channel *)
Lemma gc_on_self Δ c self p k st m :
  cfg_typed D F teq Δ c -> Topo c -> procs c !! self = Some p -> action_of Async D p = ARecv k ->
  chans c !! k = Some st -> ch_buf st = Some m -> m_rule m = RGC -> own_chan p k.
Proof.
  intros Hc Ht Hp Hact Hk Hb Hr.
  destruct (recv_polarity Δ c self p k Hc Ht Hp Hact) as (T & HT & [[Hown _]|[_ Hpos]]); [done|].
  destruct (ct_msgs _ _ _ _ _ Hc k st m Hk Hb) as (T' & HT' & Hm). rewrite Hr in Hm.
  assert (T' = T) by congruence. subst. by destruct (pol_unique D T Hpos Hm).
Qed.

(* a message on a channel of positive type is a positive message *)
Lemma pos_chan_pos_msg Δ k m T :
  msg_typed D teq Δ k m -> Δ !! k = Some T -> pol_of_ty D T Pos -> is_pos_rule (m_rule m) = true.
Proof.
  intros (T' & HT' & Hm) HT Hpos. assert (T' = T) by congruence. subst.
  destruct (m_rule m); try done; exfalso; apply (pol_unique D T Hpos).
  - destruct Hm as (A & B & md & Hw & _). by exists (TLolli A B md).
  - destruct Hm as (fm & tm & A & Hw & _). by exists (TUp fm tm A).
  - destruct Hm as (bs & md & A & Hw & _). by exists (TWith bs md).
  - by destruct Hm.
  - done.
Qed.
End typed_steps.

(* ------------------------------------------------------------------ one step, fragment with weakening *)
Section drop_step.
Variable D : tenv.
Variable F : list fundef.
Variable teq : sty -> sty -> Prop.
Hypothesis Hteq : teq_laws D teq.
Hypothesis HF : funs_typed D F teq.

Lemma names_cids_init n : names_cids (if initialized n then [n] else []) = name_cids n.
Proof. unfold initialized, names_cids, name_cids. destruct (chan n) eqn:E; cbn; [by rewrite E|done]. Qed.
Lemma Forall_init n : Forall (fun x => is_Some (chan x)) (if initialized n then [n] else []).
Proof. unfold initialized. destruct (chan n) eqn:E; constructor; [rewrite E; eauto|constructor]. Qed.

Lemma recv_form_obj n body next k : action_of Async D (Proc [n] body next) = ARecv k -> is_fwd body = false ->
  forall a, obj a body = SProc a body.
Proof.
  destruct body; cbn; unfold send_on, recv_on, internal; cbn; intros H Hf a; repeat case_match; try done.
Qed.

(* the step of a process whose head form is linear: a linear rule, or the receipt of a GC request *)
Lemma lin_case Δ c self n a body next c' :
  cfg_typed D F teq Δ c -> Topo c -> ns_ok c -> DropCfg c ->
  procs c !! self = Some (Proc [n] body next) -> chan n = Some a -> head_lin body ->
  step Async D F c (Run self) = SStep c' ->
  exists ls, sax_stepS01 F (α c) ls (α c') /\ labels c' = labels c ++ ls.
Proof.
  intros Hc Ht Hns Hdc Hp Hn Hlin Hstep.
  set (p := Proc [n] body next) in *.
  assert ((exists k st m, action_of Async D p = ARecv k /\ chans c !! k = Some st /\ ch_buf st = Some m /\ m_rule m = RGC) \/
          (forall k st m, action_of Async D p = ARecv k -> chans c !! k = Some st -> ch_buf st = Some m -> m_rule m <> RGC)) as [Hgc|Hng].
  { destruct (action_of Async D p) as [| |k0 m0|k0| |k0 pv|w] eqn:Hact; try (right; intros; congruence).
    destruct (chans c !! k0) as [st0|] eqn:Hk0; [|right; intros ? ? ? [= <-] ?; congruence].
    destruct (ch_buf st0) as [m1|] eqn:Hb0; [|right; intros ? ? ? [= <-] ? ?; congruence].
    destruct (rule_eqb (m_rule m1) RGC) eqn:Hr.
    - left. exists k0, st0, m1. split_and!; try done. by destruct (m_rule m1).
    - right. intros ? ? ? [= <-] ? ? E. assert (st = st0) by congruence. subst. assert (m = m1) by congruence. subst.
      rewrite E in Hr. done. }
  - (* a GC request: weakening reaches this process, and everything it uses *)
    destruct Hgc as (k & st & m & Hact & Hk & Hb & Hrule).
    apply step_run_async_inv in Hstep as (p0 & Hp0 & Hstep). assert (p0 = p) by congruence. subst p0.
    rewrite Hact in Hstep. destruct Hstep as (st' & Hk' & Hst). assert (st' = st) by congruence. subst st'.
    rewrite Hb in Hst. destruct Hst as (e & He & ->).
    destruct (gc_on_self D F teq Hteq HF Δ c self p k st m Hc Ht Hp Hact Hk Hb Hrule) as (n0 & Hpv & Hn0).
    unfold p in Hpv. cbn in Hpv. assert (n0 = n) by congruence. subst n0. assert (k = a) by congruence. subst k.
    assert (is_fwd body = false) as Hnf.
    { destruct body; try done. destruct droppable; [done|]. exfalso.
      unfold on_message in He. rewrite Hrule in He. cbn in He. done. }
    assert (e = let '(ss, cs, _) := droppable_fwds self p (free_names body) in Eff Finish ss cs [] []) as ->.
    { unfold on_message in He. rewrite Hrule in He. cbn in He.
      assert (match body with FFwd _ _ _ => true | _ => false end = false) as Hf by (by destruct body).
      rewrite Hf in He. cbn in He. destruct (droppable_fwds self p (free_names body)) as [[ss cs] p']. by simplify_eq. }
    destruct (droppable_fwds self p (free_names body)) as [[ss cs] p'] eqn:Hdf.
    destruct (ct_procs _ _ _ _ _ Hc self p Hp) as (s & rs & _ & _ & Hty). cbn in Hty.
    destruct (droppable_fwds_spec self _ _ _ _ _ Hdf) as (Hlen & Hcs & Hobjs & Hpl).
    { apply Forall_forall. intros x Hx. destruct (free_names_closed D F teq Δ rs s body x Hty Hx) as [t Hct].
      by eapply chan_ty_init. }
    exists []. split; [right|by rewrite labels_effect, labels_put].
    eapply (refine_finish F c self p a st m ss cs [SDrop a; SProc a body]); try done.
    + assert (length (free_names body) = length cs) as Hlc by (rewrite Hcs; by rewrite map_length, seq_length).
      rewrite Hcs at 1. f_equal. f_equal. exact Hlc.
    + unfold proc_obj, pobj, msg_obj. cbn. rewrite Hn, Hrule, (recv_form_obj n body next a Hact Hnf a). apply Permutation_swap.
    + rewrite Hobjs. apply (s_gc _ a (SProc a body)). done.
  - (* a linear rule *)
    destruct (refines_sax01_at D F c self c') as (ls & H01 & Hl); [|done|exists ls; split; [by apply sax_step01_S|done]].
    intros p0 Hp0. assert (p0 = p) by congruence. subst p0. split_and!.
    + cbn. eauto.
    + done.
    + intros _. split_and!.
      * intros Hin. apply (alpha_cids_typed_gen D F teq Δ c _ Hc (dc_msgs c Hdc)) in Hin;
          [|intros q0 pr0 Hq0; by destruct (dc_procs c Hdc q0 pr0 Hq0)].
        pose proof (ns_fresh_chan c self p (pr_next p) Hns Hp ltac:(lia)) as H0. destruct Hin as [x Hx].
        unfold p in *. cbn in *. pose proof (eq_trans (eq_sym Hx) H0) as E. discriminate E.
      * eapply (ns_fresh_chan c self p _ Hns Hp). lia.
      * eapply (ns_fresh_proc c self p _ Hns Hp). lia.
    + intros k st Hact Hk. pose proof (tres_typed_topo D F teq Hteq HF Δ c Hc Ht self p k st Hp Hact Hk) as Hres.
      destruct (ch_buf st) as [m|] eqn:Hb; [|done]. split; [|done].
      destruct (ct_msgs _ _ _ _ _ Hc k st m Hk Hb) as (T & HT & Hm).
      unfold msg_ok. destruct (m_rule m) eqn:Hrule; try done.
      * destruct Hm as (A & B & md & _ & _ & (c0 & t' & Hc0 & _)). eauto.
      * destruct Hm as (fm & tm & A & _ & (c0 & t' & Hc0 & _)). eauto.
      * destruct Hm as (bs & md & A & _ & _ & (c0 & t' & Hc0 & _)). eauto.
      * destruct (dc_msgs c Hdc k st m Hk Hb Hrule) as [n' Hpv']. exists n'. split; [done|].
        destruct Hm as (_ & _ & Hall). rewrite Hpv' in Hall. apply Forall_cons_iff in Hall as [(c0 & t' & Hc0 & _) _]. eauto.
      * by destruct (Hng k st m Hact Hk Hb).
Qed.
End drop_step.

Section drop_step2.
Variable D : tenv.
Variable F : list fundef.
Variable teq : sty -> sty -> Prop.
Hypothesis Hteq : teq_laws D teq.
Hypothesis HF : funs_typed D F teq.

(* `drop x; k` *)
Lemma drop_case Δ c self n a x k next c' :
  cfg_typed D F teq Δ c -> ns_ok c ->
  procs c !! self = Some (Proc [n] (FDrop x k) next) -> chan n = Some a ->
  step Async D F c (Run self) = SStep c' ->
  exists ls, sax_stepS01 F (α c) ls (α c') /\ labels c' = labels c ++ ls.
Proof.
  intros Hc Hns Hp Hn Hstep.
  apply step_run_async_inv in Hstep as (p0 & Hp0 & Hstep). rewrite Hp in Hp0. simplify_eq.
  destruct (ct_procs _ _ _ _ _ Hc self _ Hp) as (s & rs & _ & _ & Hty). cbn in Hty.
  inversion Hty as [| | | | | | | | | | | |? ? ? ? ? ? T Hcl Hk| | | | | | |]; subst.
  destruct (chan_ty_init teq Δ x T Hcl) as [b Hb]. destruct Hcl as (Hxs & _).
  cbn in Hstep. rewrite Hxs in Hstep. cbn in Hstep.
  destruct Hstep as (e & He & ->). cbn in He. simplify_eq.
  exists []. split; [right|by rewrite labels_effect].
  by eapply refine_drop.
Qed.

(* the droppable forward: posts the GC request (negative channel) or drops the message it receives *)
Lemma dfwd_case Δ c self n a to from next c' :
  cfg_typed D F teq Δ c -> Topo c -> ns_ok c ->
  procs c !! self = Some (Proc [n] (FFwd to from true) next) -> chan n = Some a ->
  step Async D F c (Run self) = SStep c' ->
  exists ls, sax_stepS01 F (α c) ls (α c') /\ labels c' = labels c ++ ls.
Proof.
  intros Hc Ht Hns Hp Hn Hstep. set (p := Proc [n] (FFwd to from true) next) in *.
  pose proof Hstep as Hstep0.
  apply step_run_async_inv in Hstep as (p0 & Hp0 & Hstep). assert (p0 = p) by congruence. subst p0.
  destruct (action_of Async D p) as [| |k m|k| |k pv|w] eqn:Hact; try done.
  - unfold p in Hact. cbn in Hact. repeat case_match; done.
  - unfold p in Hact. cbn in Hact. repeat case_match; done.
  - (* the request is posted: the same object *)
    assert (is_self to = true /\ chan from = Some k /\ m = Msg RGC zero_name zero_name [] "") as (Hto & Hfrom & ->).
    { unfold p in Hact. cbn in Hact. destruct (is_self to); [|done]. cbn in Hact.
      destruct (fwd_polarity D from) as [[| |]|?|?]; try done; destruct (chan from); by simplify_eq. }
    destruct Hstep as (st & Hk & Hb & ->). exists []. split; [|unfold labels; cbn; by rewrite app_nil_r].
    left. split; [done|]. symmetry. eapply refine_send; [exact Hp|exact Hk|exact Hb|].
    unfold proc_obj, pobj, msg_obj. cbn. by rewrite Hn, Hto, Hfrom.
  - (* a message arrives on the dropped channel: it is dropped, and so are the channels it carries *)
    assert (is_self to = true /\ chan from = Some k) as (Hto & Hfrom).
    { unfold p in Hact. cbn in Hact. destruct (is_self to); [|done]. cbn in Hact.
      destruct (fwd_polarity D from) as [[| |]|?|?]; try done; destruct (chan from); by simplify_eq. }
    destruct Hstep as (st & Hk & Hst).
    destruct (ch_buf st) as [m|] eqn:Hb.
    2:{ exfalso. pose proof (topo_closed_unused Async D c eq_refl Ht self p k st Hp (or_introl Hact) Hk). congruence. }
    destruct Hst as (e & He & ->).
    (* the channel is a client channel of positive type: the message is positive *)
    destruct (recv_polarity D F teq Hteq HF Δ c self p k Hc Ht Hp Hact) as (T & HT & [[Hown _]|[_ Hpos]]).
    { exfalso. eapply (own_not_client c self p k Ht Hp Hown). unfold p. cbn. apply elem_of_app. right. by apply name_chans_elem. }
    pose proof (ct_msgs _ _ _ _ _ Hc k st m Hk Hb) as Hmt.
    pose proof (pos_chan_pos_msg D teq Δ k m T Hmt HT Hpos) as Hposm.
    set (cl := (if initialized (m_c1 m) then [m_c1 m] else []) ++ (if initialized (m_c2 m) then [m_c2 m] else [])).
    assert (e = let '(ss, cs, _) := droppable_fwds self p cl in Eff Finish ss cs [] []) as ->.
    { unfold on_message in He. cbn in He.
      rewrite !andb_false_r in He. fold cl in He. destruct (droppable_fwds self p cl) as [[ss cs] p']. by simplify_eq. }
    destruct (droppable_fwds self p cl) as [[ss cs] p'] eqn:Hdf.
    destruct (droppable_fwds_spec self _ _ _ _ _ Hdf) as (Hlen & Hcs & Hobjs & Hpl).
    { unfold cl. apply Forall_app. split; apply Forall_init. }
    assert (names_cids cl = name_cids (m_c1 m) ++ name_cids (m_c2 m)) as Hcl.
    { unfold cl. by rewrite names_cids_app, !names_cids_init. }
    exists []. split; [right|by rewrite labels_effect, labels_put].
    destruct Hmt as (T' & HT' & Hm).
    assert (exists V, msg_obj k m = [SMsgP k V] /\ names_cids (pval_names V) = names_cids cl) as (V & HmV & HV).
    { rewrite Hcl. unfold msg_obj. destruct (m_rule m) eqn:Hrule; try done.
      - eexists. split; [done|]. unfold names_cids. cbn. by rewrite app_nil_r.
      - destruct Hm as (md & _ & H1 & H2). eexists. split; [done|]. unfold name_cids. by rewrite H1, H2.
      - destruct Hm as (fm & tm & A & _ & _ & H2). eexists. split; [done|]. unfold names_cids, name_cids. cbn. by rewrite H2, !app_nil_r.
      - destruct Hm as (bs & md & A & _ & _ & _ & H2). eexists. split; [done|]. unfold names_cids, name_cids. cbn. by rewrite H2, !app_nil_r. }
    eapply (refine_finish F c self p k st m ss cs [SDrop k; SMsgP k V]); try done.
    + assert (length cl = length cs) as Hlc by (rewrite Hcs; by rewrite map_length, seq_length).
      rewrite Hcs at 1. f_equal. f_equal. exact Hlc.
    + unfold proc_obj, pobj. cbn. by rewrite Hn, Hto, Hfrom, HmV.
    + rewrite Hobjs, <- HV. by apply (s_gc _ k (SMsgP k V)).
Qed.
End drop_step2.

(* ------------------------------------------------------------------ the fragment is closed under steps *)
Lemma nosplit_subst_mut :
  (forall f old new, nosplit (subst old new f) = nosplit f) /\
  (forall bs old new, nosplit_brs (subst_brs old new bs) = nosplit_brs bs).
Proof.
  apply form_branches_ind; intros; cbn; try done.
  - destruct (_ && _); auto.
  - rewrite H. destruct (negb _); [by rewrite H0|done].
  - destruct (negb _); auto.
  - rewrite H0. destruct (negb _); [by rewrite H|done].
Qed.
Lemma nosplit_subst f old new : nosplit (subst old new f) = nosplit f.
Proof. apply nosplit_subst_mut. Qed.
Lemma nosplit_subst_params ps : forall args b, nosplit (subst_params ps args b) = nosplit b.
Proof. induction ps as [|p ps IH]; intros [|a args] b; cbn; try done. by rewrite IH, nosplit_subst. Qed.
Definition nosplit_funs (F : list fundef) : Prop := forall fd, In fd F -> nosplit (fn_body fd) = true.
Lemma nosplit_unfold_call F fn args b : nosplit_funs F -> unfold_call F fn args = Some b -> nosplit b = true.
Proof.
  intros HF. unfold unfold_call. destruct (get_function F fn (length args)) as [fd|] eqn:Hg; [|done].
  apply get_function_In in Hg. specialize (HF fd Hg).
  destruct (_ =? _)%nat; [intros [= <-]; by rewrite nosplit_subst_params|].
  destruct (_ =? _)%nat; [|done]. destruct args as [|a0 rest]; [done|]. intros [= <-].
  rewrite nosplit_subst_params. destruct (fn_explicit fd); [by rewrite nosplit_subst|done].
Qed.
Lemma nosplit_find_branch l bs y Q : nosplit_brs bs = true -> find_branch l bs = Some (y, Q) -> nosplit Q = true.
Proof.
  induction bs as [|l' y' k r IH]; cbn; [done|]. intros [Hk Hr]%andb_prop.
  destruct (String.eqb l' l); [intros [= <- <-]; done|auto].
Qed.

Definition eff_ok1 (e : effect) : Prop :=
  (forall p', e_after e = Continue p' -> nosplit (pr_body0 p') = true /\ exists n, pr_provs p' = [n]) /\
  (forall s, In s (e_spawn e) -> nosplit (sp_body s) = true /\ exists n, sp_provs s = [n]).

Lemma droppable_fwds_ok1 self : forall cl p ss cs p', droppable_fwds self p cl = (ss, cs, p') ->
  forall s, In s ss -> nosplit (sp_body s) = true /\ exists n, sp_provs s = [n].
Proof.
  induction cl as [|n cl IH]; intros p ss cs p' H s Hs; cbn in H.
  - simplify_eq. done.
  - unfold droppable_fwd, fresh_chan in H. cbn in H.
    destruct (droppable_fwds self _ cl) as [[ss1 cs1] p2] eqn:Hrec. simplify_eq.
    destruct Hs as [<-|Hs]; [cbn; eauto|]. eapply IH; eauto.
Qed.

Lemma on_message_ok1 self p m e n :
  pr_provs p = [n] -> nosplit (pr_body0 p) = true -> (m_rule m = RFWD -> exists n', m_provs m = [n']) ->
  on_message self p m = EOk e -> eff_ok1 e.
Proof.
  intros Hpv Hns Hfw He. destruct p as [provs body next]. cbn in *. subst provs.
  assert (forall y Q l bs, find_branch l bs = Some (y, Q) -> nosplit_brs bs = true -> nosplit Q = true) as Hbr
    by (intros; by eapply nosplit_find_branch).
  unfold on_message in He. cbn in He.
  destruct (m_rule m) eqn:Hrule; cbn in He.
  8:{ destruct (Hfw eq_refl) as [n' Hpv'].
      destruct body; cbn in He, Hns; simplify_eq; try (split; [intros p' [= <-]; cbn; rewrite ?Hpv'; eauto|intros s []]).
      destruct droppable; cbn in He.
      - destruct (droppable_fwds _ _ _) as [[ss cs] p'] eqn:Hdf. simplify_eq. split; [done|]. cbn. by eapply droppable_fwds_ok1.
      - rewrite Hpv' in He. simplify_eq. split; [intros p' [= <-]; cbn; eauto|intros s []]. }
  all: destruct body; cbn in He, Hns; try discriminate.
  all: repeat match type of He with
       | context [if ?b then _ else _] => destruct b eqn:?; try discriminate
       | context [match find_branch ?l ?bs with _ => _ end] => destruct (find_branch l bs) as [[? ?]|] eqn:?; try discriminate
       | context [droppable_fwds ?a ?b ?c] => destruct (droppable_fwds a b c) as [[? ?] ?] eqn:?
       end.
  all: try (apply andb_prop in Hns as [? ?]).
  all: simplify_eq.
  all: split; [intros p' Hp'; cbn in Hp'; first [discriminate | (simplify_eq; cbn; rewrite ?nosplit_subst; split; [first [done | by eapply Hbr]|eauto])]
              |intros s Hs; cbn in Hs; first [done | by eapply droppable_fwds_ok1]].
Qed.

Lemma internal_ok1 F self p e n :
  pr_provs p = [n] -> nosplit (pr_body0 p) = true -> nosplit_funs F ->
  internal_effect Async F self p = EOk e -> eff_ok1 e.
Proof.
  intros Hpv Hns HFn He. destruct p as [provs body next]. cbn in *. subst provs.
  destruct body; cbn in He, Hns; try discriminate.
  - apply andb_prop in Hns as [? ?]. simplify_eq. split.
    + intros p' [= <-]. cbn. rewrite nosplit_subst. eauto.
    + intros s [<-|[]]. cbn. eauto.
  - destruct (call_body F f args) as [b|] eqn:Hcall; [|done]. simplify_eq. rewrite call_body_unfold in Hcall.
    split; [|intros s []]. intros p' [= <-]. cbn. split; [by eapply nosplit_unfold_call|eauto].
  - simplify_eq. split.
    + intros p' [= <-]. cbn. eauto.
    + intros s [<-|[]]. cbn. eauto.
  - simplify_eq. split; [|intros s []]. intros p' [= <-]. cbn. eauto.
Qed.

Lemma add_spawns_content self ss : forall next pm q pr,
  (add_spawns self next ss pm).1 !! q = Some pr ->
  pm !! q = Some pr \/ exists s, In s ss /\ pr = Proc (sp_provs s) (sp_body s) 0.
Proof.
  induction ss as [|s ss IH]; intros next pm q pr H; cbn in H; [auto|].
  apply IH in H as [H|(s' & Hs' & ->)]; [|right; exists s'; split; [by right|done]].
  apply lookup_insert_Some in H as [[_ <-]|[_ H]]; [right; exists s; split; [by left|done]|by left].
Qed.

Lemma apply_effect_content c self p e q pr :
  procs (apply_effect c self p e) !! q = Some pr ->
  (exists p', e_after e = Continue p' /\ pr_provs pr = pr_provs p' /\ pr_body0 pr = pr_body0 p') \/
  (exists s, In s (e_spawn e) /\ pr_provs pr = sp_provs s /\ pr_body0 pr = sp_body s) \/
  procs c !! q = Some pr.
Proof.
  unfold apply_effect.
  destruct (add_spawns self _ (e_spawn e) (procs c)) as [pm next1] eqn:Hadd. cbn [procs].
  assert (pm = (add_spawns self (match e_after e with Continue p' => pr_next p' | Finish => pr_next p end + length (e_newch e)) (e_spawn e) (procs c)).1) as Hpm by (by rewrite Hadd).
  intros H.
  assert (pm !! q = Some pr \/ exists p', e_after e = Continue p' /\ pr_provs pr = pr_provs p' /\ pr_body0 pr = pr_body0 p') as [H1|H1].
  { destruct (e_after e) as [p'|].
    - apply lookup_insert_Some in H as [[_ <-]|[_ H]]; [right; eauto|by left].
    - apply lookup_delete_Some in H as [_ H]. by left. }
  - rewrite Hpm in H1. apply add_spawns_content in H1 as [H1|(s & Hs & ->)]; [auto|]. right. left. eauto.
  - by left.
Qed.

Lemma send_fwd_provs D p k m : action_of Async D p = ASend k m -> m_rule m = RFWD -> m_provs m = pr_provs p.
Proof.
  destruct p as [provs body next]. unfold action_of, send_on, recv_on, internal. cbn.
  destruct body; cbn; repeat case_match; intros ?; simplify_eq; cbn; done.
Qed.

Theorem dropcfg_step D F c self c' :
  nosplit_funs F -> Topo c -> DropCfg c -> step Async D F c (Run self) = SStep c' -> DropCfg c'.
Proof.
  intros HFn Ht Hdc Hstep. apply step_run_async_inv in Hstep as (p & Hp & Hstep).
  destruct (dc_procs c Hdc self p Hp) as [Hns [n Hpv]].
  assert (forall c1 e, procs c1 = procs c -> eff_ok1 e ->
            forall q pp, procs (apply_effect c1 self p e) !! q = Some pp -> nosplit (pr_body0 pp) = true /\ exists n0, pr_provs pp = [n0]) as Hprocs.
  { intros c1 e Hc1 [Hk Hs] q pp Hq. apply apply_effect_content in Hq as [(p' & Ha & -> & ->)|[(s & Hin & -> & ->)|Hq]]; [by apply Hk|by apply Hs|].
    rewrite Hc1 in Hq. by apply (dc_procs c Hdc q pp). }
  assert (forall c1 e, (forall k st m, chans c1 !! k = Some st -> ch_buf st = Some m -> m_rule m = RFWD -> exists n0, m_provs m = [n0]) ->
            forall k st m, chans (apply_effect c1 self p e) !! k = Some st -> ch_buf st = Some m -> m_rule m = RFWD -> exists n0, m_provs m = [n0]) as Hmsgs.
  { intros c1 e Hc1 k st m Hk Hb Hr.
    assert (buf (apply_effect c1 self p e) k = Some m) as Hbuf by (unfold buf, bufm; by rewrite Hk).
    apply apply_effect_buf in Hbuf. unfold buf, bufm in Hbuf. destruct (chans c1 !! k) as [st1|] eqn:Hk1; [|done]. eauto. }
  destruct (action_of Async D p) as [| |k m|k| |k pv|w] eqn:Hact; try done.
  - by destruct (action_not_dup Async D p n Hpv).
  - destruct Hstep as (e & He & ->). pose proof (internal_ok1 F self p e n Hpv Hns HFn He) as Hok. split.
    + by apply Hprocs.
    + apply Hmsgs. apply (dc_msgs c Hdc).
  - destruct Hstep as (st & Hk & Hb & ->). split; cbn.
    + intros q pp [_ Hq]%lookup_delete_Some. by apply (dc_procs c Hdc q pp).
    + intros k' st' m' [[<- <-]|[_ Hk']]%lookup_insert_Some Hb' Hr; [|by eapply (dc_msgs c Hdc)].
      cbn in Hb'. simplify_eq. rewrite (send_fwd_provs D p k m' Hact Hr). eauto.
  - destruct Hstep as (st & Hk & Hst). destruct (ch_buf st) as [m|] eqn:Hb.
    + destruct Hst as (e & He & ->).
      pose proof (on_message_ok1 self p m e n Hpv Hns (dc_msgs c Hdc k st m Hk Hb) He) as Hok. split.
      * by apply Hprocs.
      * apply Hmsgs. intros k' st' m' Hk'. cbn in Hk'. apply lookup_insert_Some in Hk' as [[<- <-]|[_ Hk']]; [done|by apply (dc_msgs c Hdc k' st' m')].
    + (* no receive on a closed channel *)
      pose proof (topo_closed_unused Async D c eq_refl Ht self p k st Hp (or_introl Hact) Hk). congruence.
Qed.

(* ------------------------------------------------------------------ one step, then runs *)
Section drop_runs.
Variable D : tenv.
Variable F : list fundef.
Variable teq : sty -> sty -> Prop.
Hypothesis Hteq : teq_laws D teq.
Hypothesis HF : funs_typed D F teq.
Hypothesis HFa : TopoStep.funs_aff F.
Hypothesis HFn : nofd_funs F.
Hypothesis HFs : nosplit_funs F.

Theorem refines_drop_step c self c' :
  InvX D F teq c -> DropCfg c -> step Async D F c (Run self) = SStep c' ->
  exists ls, sax_stepS01 F (α c) ls (α c') /\ labels c' = labels c ++ ls.
Proof.
  intros [[Δ Hc] Ht Hl Hns Hpv Hd Hnf] Hdc Hstep.
  destruct (procs c !! self) as [p|] eqn:Hp; [|by apply step_run_async_inv in Hstep as (p & Hp' & _); congruence].
  destruct (dc_procs c Hdc self p Hp) as [Hnsp [n Hpvn]].
  destruct (ct_procs _ _ _ _ _ Hc self p Hp) as (s & rs & _ & Hprov & _). rewrite Hpvn in Hprov.
  apply Forall_cons_iff in Hprov as [(a & t' & Hn & _) _].
  destruct p as [provs body next]. cbn in Hpvn, Hnsp. subst provs.
  destruct body; try (eapply (lin_case D F teq Hteq HF Δ c self n a); eauto; done).
  - (* forward *) destruct droppable.
    + eapply (dfwd_case D F teq Hteq HF Δ c self n a); eauto.
    + eapply (lin_case D F teq Hteq HF Δ c self n a); eauto. done.
  - (* drop *) eapply (drop_case D F teq Δ c self n a); eauto.
Qed.

Theorem refines_drop_run c tr c' :
  InvX D F teq c -> DropCfg c -> steps Async D F c tr c' ->
  exists ls, sax_steps F true (α c) ls (α c') /\ labels c' = labels c ++ ls.
Proof.
  intros HI Hdc Hs. induction Hs as [c|c ch c1 tr c2 Hstep _ IH].
  - exists []. split; [by apply sax_refl|by rewrite app_nil_r].
  - destruct (async_step_run D F c ch c1 Hstep) as [self ->].
    destruct (refines_drop_step c self c1 HI Hdc Hstep) as (l1 & Hs1 & Hl1).
    pose proof (invx_step_async D F teq Hteq HF HFa HFn c (Run self) c1 HI Hstep) as HI1.
    pose proof (dropcfg_step D F c self c1 HFs (ix_topo _ _ _ _ HI) Hdc Hstep) as Hdc1.
    destruct (IH HI1 Hdc1) as (l2 & Hs2 & Hl2).
    exists (l1 ++ l2). split; [eapply sax_steps_app; [by apply sax_stepS01_steps|done]|]. by rewrite Hl2, Hl1, app_assoc.
Qed.
End drop_runs.

(* ------------------------------------------------------------------ accepted programs with weakening *)
Require Import Grits.spec.SynOk Grits.proofs.RtInit Grits.proofs.RtTheorems Grits.proofs.RtStaticCheck Grits.proofs.RtTcSyn
               Grits.proofs.RtTcBisim Grits.proofs.ParseSynOk Grits.proofs.ParseRaw Grits.proofs.AsyncSync
               Grits.proofs.DeterminismAll Grits.proofs.SrcAll.

(* the fragment, decided on the annotated program: no split, one provider name per process
   (drop is allowed; so is everything of the linear fragment) *)
Definition nosplit_program (p : program) : bool :=
  forallb (fun pr => match pr_providers pr with [_] => nosplit (pr_body pr) | _ => false end) (p_procs p) &&
  forallb (fun fd => nosplit (fn_body fd)) (p_funs p).

Lemma close_body_nosplit p b : nosplit (close_body p b) = nosplit b.
Proof.
  unfold close_body. apply (fold_left_inv (fun b' => nosplit b' = nosplit b)); [done|].
  intros b' [old new] Hb'. by rewrite nosplit_subst.
Qed.

Lemma nosplit_program_init p : nosplit_program p = true -> nosplit_funs (p_funs p) /\ DropCfg (init_config p).
Proof.
  unfold nosplit_program. intros [Hlp Hlf]%andb_prop. rewrite forallb_forall in Hlp, Hlf. split.
  - intros fd Hfd. by apply Hlf.
  - split.
    + intros q pr' Hq. apply init_procs_lookup in Hq as (i & pr & Hpr & -> & Hpv & Hbody & _).
      assert (In pr (p_procs p)) as Hin by (by eapply elem_of_list_In, elem_of_list_lookup_2).
      specialize (Hlp pr Hin). cbn in Hlp. destruct (pr_providers pr) as [|x [|y r]] eqn:Hprov; try done.
      split; [by rewrite Hbody, close_body_nosplit|]. rewrite Hpv. cbn. eauto.
    + intros k st m Hk Hb. pose proof (bufs_empty_init p k st Hk). congruence.
Qed.

(* C04 for programs with weakening: parsed, accepted, closed, no split and one provider name per
   process — every Async run prints a label sequence that Sax.v (structural rules included) prints
   from the program's own SAX initial configuration.  No premise about configurations or runs. *)
Theorem prints_admitted_drop txt p p' :
  parse_string txt = POk p -> typecheck p = Accept p' -> in_fragment p' -> nosplit_program p' = true ->
  forall fuel pick, exists C',
    sax_steps (p_funs p') true (sax_init p')
      (labels (res_config (exec_run fuel pick Async (p_types p') (p_funs p') (init_config p')))) C'.
Proof.
  intros Hp Ha Hf Hns fuel pick.
  pose proof (parse_syn_ok _ _ Hp) as PS. pose proof (parse_raw_ok _ _ Hp) as RS.
  destruct (init_invx p p' Ha Hf PS RS (all_src_parsed txt p p' Hp Ha)) as (HFa & HFn & HI).
  pose proof (tc_annotations_typed_rt p p' Ha PS RS Hf) as Hst.
  destruct (nosplit_program_init p' Hns) as [HFs Hdc].
  rewrite <- (exec_trace_exec_run Async (p_types p') (p_funs p') fuel pick (init_config p') []).
  destruct (exec_trace fuel pick Async (p_types p') (p_funs p') (init_config p') []) as [r tr] eqn:Htr. cbn [fst].
  apply exec_trace_run in Htr as (es & _ & Hrun).
  destruct (refines_drop_run _ _ _ (teq_rt_laws _) (proj1 Hst) HFa HFn HFs _ _ _ HI Hdc Hrun) as (ls & Hs & Hl).
  exists (α (res_config r)). rewrite Hl. change (labels (init_config p')) with (@nil string). cbn.
  eapply sax_steps_perm; [symmetry; apply alpha_init|done].
  intros q pr Hq. by destruct (dc_procs _ Hdc q pr Hq).
Qed.

Definition c04_drop_text (txt : string) : bool :=
  match parse_string txt with
  | POk p => match typecheck p with Accept p' => in_fragment_b p' && nosplit_program p' | _ => false end
  | _ => false
  end.

Theorem prints_admitted_drop_text txt : c04_drop_text txt = true ->
  exists p p', parse_string txt = POk p /\ typecheck p = Accept p' /\
  forall fuel pick, exists C',
    sax_steps (p_funs p') true (sax_init p')
      (labels (res_config (exec_run fuel pick Async (p_types p') (p_funs p') (init_config p')))) C'.
Proof.
  unfold c04_drop_text. destruct (parse_string txt) as [p| | |] eqn:Hp; try discriminate.
  destruct (typecheck p) as [p'| | |] eqn:Ha; try discriminate.
  intros [Hf Hc]%andb_prop. exists p, p'. split; [done|]. split; [done|].
  apply (prints_admitted_drop txt p p' Hp Ha); [by apply in_fragment_b_sound|done].
Qed.

(* ------------------------------------------------------------------ the synchronous polarized mode *)
Section drop_runs_md.
Variable D : tenv.
Variable F : list fundef.
Variable teq : sty -> sty -> Prop.
Hypothesis Hteq : teq_laws D teq.
Hypothesis HF : funs_typed D F teq.
Hypothesis HFa : TopoStep.funs_aff F.
Hypothesis HFn : nofd_funs F.
Hypothesis HFs : nosplit_funs F.

Lemma refines_drop_step_md md c ch c' :
  is_np md = false -> InvX D F teq c -> DropCfg c -> (md = Sync -> bufs_empty c) -> step md D F c ch = SStep c' ->
  (exists ls, sax_steps F true (α c) ls (α c') /\ labels c' = labels c ++ ls) /\ DropCfg c'.
Proof.
  intros Hnp HI Hdc Hb Hs.
  assert (forall c0 self c1, InvX D F teq c0 -> DropCfg c0 -> step Async D F c0 (Run self) = SStep c1 ->
            (exists ls, sax_steps F true (α c0) ls (α c1) /\ labels c1 = labels c0 ++ ls) /\ DropCfg c1) as Hone.
  { intros c0 self c1 HI0 Hdc0 Hs0. split.
    - destruct (refines_drop_step D F teq Hteq HF c0 self c1 HI0 Hdc0 Hs0) as (ls & H1 & H2). exists ls. split; [by apply sax_stepS01_steps|done].
    - exact (dropcfg_step D F c0 self c1 HFs (ix_topo _ _ _ _ HI0) Hdc0 Hs0). }
  destruct md; [| |done].
  - destruct (async_step_run D F c ch c' Hs) as [self ->]. by apply (Hone c self c').
  - destruct (sync_step_async D F c ch c' (Hb eq_refl) Hs) as [(p & -> & H1)|(s & r & c1 & -> & H1 & H2)].
    + by apply (Hone c p c').
    + destruct (Hone c s c1 HI Hdc H1) as [(l1 & Hs1 & Hl1) Hdc1].
      pose proof (invx_step_async D F teq Hteq HF HFa HFn c (Run s) c1 HI H1) as HI1.
      destruct (Hone c1 r c' HI1 Hdc1 H2) as [(l2 & Hs2 & Hl2) Hdc2]. split; [|done].
      exists (l1 ++ l2). split; [by eapply sax_steps_app|]. by rewrite Hl2, Hl1, app_assoc.
Qed.

Theorem refines_drop_run_md md c tr c' :
  is_np md = false -> InvX D F teq c -> DropCfg c -> (md = Sync -> bufs_empty c) -> steps md D F c tr c' ->
  exists ls, sax_steps F true (α c) ls (α c') /\ labels c' = labels c ++ ls.
Proof.
  intros Hnp HI Hdc Hb Hs. induction Hs as [c|c ch c1 tr c2 Hstep _ IH].
  - exists []. split; [by apply sax_refl|by rewrite app_nil_r].
  - destruct (refines_drop_step_md md c ch c1 Hnp HI Hdc Hb Hstep) as [(l1 & Hs1 & Hl1) Hdc1].
    destruct (invx_step D F teq Hteq HF HFa HFn md c ch c1 Hnp HI Hb Hstep) as [HI1 Hb1].
    destruct (IH HI1 Hdc1 Hb1) as (l2 & Hs2 & Hl2).
    exists (l1 ++ l2). split; [by eapply sax_steps_app|]. by rewrite Hl2, Hl1, app_assoc.
Qed.
End drop_runs_md.

Theorem prints_admitted_drop_md md txt p p' :
  is_np md = false ->
  parse_string txt = POk p -> typecheck p = Accept p' -> in_fragment p' -> nosplit_program p' = true ->
  forall fuel pick, exists C',
    sax_steps (p_funs p') true (sax_init p')
      (labels (res_config (exec_run fuel pick md (p_types p') (p_funs p') (init_config p')))) C'.
Proof.
  intros Hnp Hp Ha Hf Hns fuel pick.
  pose proof (parse_syn_ok _ _ Hp) as PS. pose proof (parse_raw_ok _ _ Hp) as RS.
  destruct (init_invx p p' Ha Hf PS RS (all_src_parsed txt p p' Hp Ha)) as (HFa & HFn & HI).
  pose proof (tc_annotations_typed_rt p p' Ha PS RS Hf) as Hst.
  destruct (nosplit_program_init p' Hns) as [HFs Hdc].
  rewrite <- (exec_trace_exec_run md (p_types p') (p_funs p') fuel pick (init_config p') []).
  destruct (exec_trace fuel pick md (p_types p') (p_funs p') (init_config p') []) as [r tr] eqn:Htr. cbn [fst].
  apply exec_trace_run in Htr as (es & _ & Hrun).
  destruct (refines_drop_run_md _ _ _ (teq_rt_laws _) (proj1 Hst) HFa HFn HFs md _ _ _ Hnp HI Hdc
              (fun _ => bufs_empty_init p') Hrun) as (ls & Hs & Hl).
  exists (α (res_config r)). rewrite Hl. change (labels (init_config p')) with (@nil string). cbn.
  eapply sax_steps_perm; [symmetry; apply alpha_init|done].
  intros q pr Hq. by destruct (dc_procs _ Hdc q pr Hq).
Qed.

(* ------------------------------------------------------------------ C04, first sentence, for contraction-free programs:
   the labels of a terminating run are printed by the reference semantics, and every run (any
   schedule, any larger fuel) terminates with the same multiset (C03: DeterminismAll.determinism_all) *)
Theorem results_unique_admitted md txt p p' pick1 f1 t1 :
  is_np md = false ->
  parse_string txt = POk p -> typecheck p = Accept p' -> in_fragment p' -> nosplit_program p' = true ->
  exec_run f1 pick1 md (p_types p') (p_funs p') (init_config p') = RQuiescent t1 ->
  (exists C', sax_steps (p_funs p') true (sax_init p') (labels t1) C') /\
  (forall pick2 f2, (f1 <= f2)%nat ->
     exists t2, exec_run f2 pick2 md (p_types p') (p_funs p') (init_config p') = RQuiescent t2 /\ labels t2 ≡ₚ labels t1).
Proof.
  intros Hnp Hp Ha Hf Hns Hrun. split.
  - destruct (prints_admitted_drop_md md txt p p' Hnp Hp Ha Hf Hns f1 pick1) as [C' HC]. rewrite Hrun in HC. eauto.
  - intros pick2 f2 Hle.
    destruct (determinism_all txt p p' md pick1 pick2 f1 f2 t1 Hp Ha Hf (all_src_parsed txt p p' Hp Ha) Hnp Hrun Hle)
      as (t2 & H2 & _ & Hperm). eauto.
Qed.
