(* SaxDrop.v — C04, results half: WEAKENING.  The refinement of proofs/SaxRefine.v extended to programs
   with `drop` (no split, one provider name per process), Async mode, as a weak simulation into
   spec/Sax.v WITH its structural rules s_drop and s_gc:
     * `drop x; k`           one Sax step s_drop: the droppable forward the interpreter spawns IS the
                             pending request drop(x) (Sax.obj reads `fwd^drop self x` as SDrop x);
     * the droppable forward posts a GC request on a negative channel: zero Sax steps (the buffered
       GC message is the same object drop(x));
     * the droppable forward receives a positive message: s_gc on the message (its payload and
       continuation channels are dropped in turn);
     * a process receives the GC request on its own channel: s_gc on the process (every channel it
       uses is dropped in turn) — weakening reaches every dependency;
     * every other step: `refines_sax01_at` (linear rules).
   The side conditions come from a8's invariant InvX (typed + Topo + ns_ok + NoFd) and the fragment
   invariant DropCfg (one provider per process, no split), proved inductive here. *)
From stdpp Require Import gmap strings.
Require Import Grits.Base Grits.ModeDefs Grits.Modes Grits.STypes Grits.Forms Grits.Subst Grits.TcDeps Grits.Expand
               Grits.Tc Grits.TcTop Grits.Runtime.
Require Import Grits.spec.RtTyping Grits.spec.Topo Grits.proofs.RuntimeFacts Grits.proofs.RtSafety Grits.proofs.InvAll.
Require Import Grits.spec.Sax Grits.proofs.Causality Grits.proofs.SaxRefine Grits.proofs.SaxInv Grits.proofs.SaxTyped.

(* ------------------------------------------------------------------ spawned processes as objects *)
Definition spawn_objs (ss : list spawn) : list sobj :=
  flat_map (fun s => proc_obj (Proc (sp_provs s) (sp_body s) 0)) ss.

Lemma add_spawns_fst_delete self q ss : forall next pm, q <> self ++ [next] -> (forall i, q <> self ++ [(next + i)%nat]) ->
  delete q (add_spawns self next ss pm).1 = (add_spawns self next ss (delete q pm)).1.
Proof.
  induction ss as [|s ss IH]; intros next pm Hq Hall; cbn; [done|].
  rewrite IH.
  - by rewrite delete_insert_ne.
  - specialize (Hall 1%nat). by replace (next + 1)%nat with (S next) in Hall by lia.
  - intros i. specialize (Hall (S i)). by replace (next + S i)%nat with (S next + i)%nat in Hall by lia.
Qed.

Lemma add_spawns_objs self ss : forall next pm,
  (forall i, (i < length ss)%nat -> pm !! (self ++ [(next + i)%nat]) = None) ->
  procs_objs (add_spawns self next ss pm).1 ≡ₚ spawn_objs ss ++ procs_objs pm.
Proof.
  induction ss as [|s ss IH]; intros next pm Hfresh; cbn; [done|].
  rewrite IH.
  - rewrite procs_objs_insert_fresh.
    + unfold spawn_objs. cbn. rewrite <- !app_assoc. apply Permutation_app_swap_app.
    + specialize (Hfresh 0%nat). rewrite Nat.add_0_r in Hfresh. apply Hfresh. cbn. lia.
  - intros i Hi. rewrite lookup_insert_ne.
    + specialize (Hfresh (S i)). replace (next + S i)%nat with (S next + i)%nat in Hfresh by lia. apply Hfresh. cbn. lia.
    + intros E. apply app_inv_head in E. injection E. lia.
Qed.

Lemma foldr_new_lookup cs : forall (cm : gmap cid chan_st) k st,
  foldr (fun ch m => <[ ch := empty_chan ]> m) cm cs !! k = Some st -> st = empty_chan \/ cm !! k = Some st.
Proof.
  induction cs as [|c cs IH]; intros cm k st; cbn; [auto|].
  intros [[_ <-]|[_ H]]%lookup_insert_Some; [auto|by apply IH].
Qed.

Lemma chans_objs_new_list cs : forall cm, (forall k, k ∈ cs -> cm !! k = None) ->
  chans_objs (foldr (fun ch m => <[ ch := empty_chan ]> m) cm cs) ≡ₚ chans_objs cm.
Proof.
  induction cs as [|c cs IH]; intros cm Hn; cbn; [done|].
  rewrite chans_objs_insert. cbn.
  set (m' := foldr (fun ch m => <[ ch := empty_chan ]> m) cm cs) in *.
  destruct (m' !! c) as [st|] eqn:Hc.
  - assert (chans_objs m' ≡ₚ chans_objs cm) as <- by (apply IH; intros; apply Hn; by apply elem_of_list_further).
    rewrite (chans_objs_lookup m' c st Hc). apply foldr_new_lookup in Hc as [->|Hc]; [done|].
    rewrite Hn in Hc by apply elem_of_list_here. done.
  - rewrite delete_notin by done. apply IH. intros; apply Hn; by apply elem_of_list_further.
Qed.

(* an effect that ends the acting process and spawns *)
Lemma alpha_finish c1 self p ss cs :
  procs c1 !! self = Some p ->
  (forall i, (i < length ss)%nat -> procs c1 !! (self ++ [(pr_next p + length cs + i)%nat]) = None) ->
  (forall k, k ∈ cs -> chans c1 !! k = None) ->
  α (apply_effect c1 self p (Eff Finish ss cs [] [])) ≡ₚ
  spawn_objs ss ++ procs_objs (delete self (procs c1)) ++ chans_objs (chans c1).
Proof.
  intros Hp Hfresh Hcs. unfold α, apply_effect. cbn.
  destruct (add_spawns self (pr_next p + length cs) ss (procs c1)) as [pm next1] eqn:Hadd. cbn.
  assert (pm = (add_spawns self (pr_next p + length cs) ss (procs c1)).1) as -> by (by rewrite Hadd).
  rewrite add_spawns_fst_delete; [|apply self_ne_snoc|intros i; apply self_ne_snoc].
  rewrite add_spawns_objs.
  - rewrite chans_objs_new_list by done. by rewrite <- app_assoc.
  - intros i Hi. apply lookup_delete_None. right. by apply Hfresh.
Qed.

(* the droppable forwards spawned for a list of (initialised) names are the drop requests on them *)
Lemma droppable_fwds_spec self : forall cl p ss cs p',
  droppable_fwds self p cl = (ss, cs, p') -> Forall (fun n => is_Some (chan n)) cl ->
  length ss = length cl /\ cs = map (fun i => self ++ [(pr_next p + i)%nat]) (seq 0 (length cl)) /\
  spawn_objs ss = map SDrop (names_cids cl).
Proof.
  induction cl as [|n cl IH]; intros p ss cs p' H Hall; cbn in H.
  - simplify_eq. done.
  - unfold droppable_fwd, fresh_chan in H. cbn in H.
    destruct (droppable_fwds self _ cl) as [[ss1 cs1] p2] eqn:Hrec. simplify_eq.
    apply Forall_cons_iff in Hall as [[b Hb] Hall].
    destruct (IH _ _ _ _ Hrec Hall) as (Hl & Hcs & Hobjs). cbn in Hcs. split_and!.
    + cbn. by rewrite Hl.
    + cbn. rewrite Nat.add_0_r. f_equal. rewrite Hcs, <- seq_shift, map_map. apply map_ext. intros i. f_equal. f_equal. lia.
    + unfold spawn_objs in *. cbn. rewrite Hobjs. unfold proc_obj. cbn. unfold names_cids. cbn.
      unfold name_cids. by rewrite Hb.
Qed.

(* ------------------------------------------------------------------ freshness from ns_ok *)
Lemma ns_fresh_proc c self p m : ns_ok c -> procs c !! self = Some p -> (pr_next p <= m)%nat ->
  procs c !! (self ++ [m]) = None.
Proof.
  intros Hns Hp Hm. destruct (procs c !! (self ++ [m])) eqn:Hq; [|done]. exfalso.
  destruct (Hns self p Hp) as [H _]. specialize (H (self ++ [m]) ltac:(eauto) m [] eq_refl). lia.
Qed.
Lemma ns_fresh_chan c self p m : ns_ok c -> procs c !! self = Some p -> (pr_next p <= m)%nat ->
  chans c !! (self ++ [m]) = None.
Proof.
  intros Hns Hp Hm. destruct (chans c !! (self ++ [m])) eqn:Hq; [|done]. exfalso.
  destruct (Hns self p Hp) as [_ H]. specialize (H (self ++ [m]) ltac:(eauto) m [] eq_refl). lia.
Qed.

Section steps.
Context (D : tenv) (F : list fundef).

(* zero or one step of the reference semantics, structural rules included *)
Definition sax_stepS01 (C : sconfig) (ls : list string) (C' : sconfig) : Prop :=
  (ls = [] /\ C ≡ₚ C') \/ sax_step F true C ls C'.

Lemma sax_step01_S C ls C' : sax_step01 F C ls C' -> sax_stepS01 C ls C'.
Proof.
  intros [H|(L & R & Δ & H1 & H2 & [H3|[? _]])]; [by left| |done].
  right. exists L, R, Δ. split_and!; try done. by left.
Qed.
Lemma sax_stepS01_steps C ls C' : sax_stepS01 C ls C' -> sax_steps F true C ls C'.
Proof.
  intros [[-> Hp]|Hs]; [by apply sax_refl|]. rewrite <- (app_nil_r ls). eapply sax_trans; [done|by apply sax_refl].
Qed.
Lemma sax_oneS L R Δ ls C C' :
  C ≡ₚ L ++ Δ -> C' ≡ₚ R ++ Δ -> sred_str Δ L ls R -> sax_step F true C ls C'.
Proof. intros HC HC' Hr. exists L, R, Δ. split_and!; try done. by right. Qed.

(* weakening: `drop x; k` *)
Lemma refine_drop c self n a x k next b :
  procs c !! self = Some (Proc [n] (FDrop x k) next) -> chan n = Some a ->
  is_self x = false -> chan x = Some b -> ns_ok c ->
  sax_step F true (α c) []
    (α (apply_effect c self (Proc [n] (FDrop x k) next)
          (Eff (Continue (set_body (Proc [n] (FDrop x k) (S next)) k))
               [Spawn [mkName (ident x) false (pol x) (nty x) (Some (self ++ [next]))]
                      (FFwd (mkName (ident x) true (pol x) (nty x) None) x true)]
               [self ++ [next]] [] []))).
Proof.
  intros Hp Hn Hx Hb Hns.
  assert (α c ≡ₚ [SProc a (FDrop x k)] ++ procs_objs (delete self (procs c)) ++ chans_objs (chans c)) as Hc.
  { rewrite (alpha_lookup c self _ Hp). unfold proc_obj. cbn. by rewrite Hn. }
  eapply (sax_oneS [SProc a (FDrop x k)] [obj a k; SDrop b]); [exact Hc| |by apply s_drop].
  unfold α, apply_effect. cbn.
  rewrite procs_objs_insert. rewrite delete_insert_ne by apply self_ne_snoc.
  rewrite procs_objs_insert_fresh.
  2:{ apply lookup_delete_None. right. eapply (ns_fresh_proc c self _ _ Hns Hp). cbn. lia. }
  rewrite chans_objs_new by (eapply (ns_fresh_chan c self _ _ Hns Hp); cbn; lia).
  unfold proc_obj. cbn. rewrite Hn, Hb. cbn. done.
Qed.

(* a step that ends the acting process, consumes the message on k and spawns: one structural step *)
Lemma refine_finish c self p k st m ss cs L :
  procs c !! self = Some p -> chans c !! k = Some st -> ch_buf st = Some m -> ns_ok c ->
  cs = map (fun i => self ++ [(pr_next p + i)%nat]) (seq 0 (length cs)) ->
  L ≡ₚ proc_obj p ++ msg_obj k m ->
  sred_str (procs_objs (delete self (procs c)) ++ chans_objs (delete k (chans c))) L [] (spawn_objs ss) ->
  sax_step F true (α c) [] (α (apply_effect (put_msg c k st None) self p (Eff Finish ss cs [] []))).
Proof.
  intros Hp Hk Hb Hns Hcs HL Hr. eapply sax_oneS; [| |exact Hr].
  - rewrite (alpha_lookup c self p Hp), (chans_objs_lookup _ k st Hk), HL. unfold chan_obj. rewrite Hb.
    rewrite <- !app_assoc. f_equiv. rewrite !app_assoc. f_equiv. apply Permutation_app_comm.
  - rewrite alpha_finish; [| done | |].
    + cbn [procs chans put_msg]. rewrite chans_objs_insert. cbn. done.
    + intros i Hi. cbn [procs put_msg]. eapply (ns_fresh_proc c self p _ Hns Hp). lia.
    + intros k' Hk'. rewrite Hcs in Hk'. apply elem_of_list_In, in_map_iff in Hk' as (i & <- & _).
      cbn [chans put_msg]. rewrite lookup_insert_ne.
      * eapply (ns_fresh_chan c self p _ Hns Hp). lia.
      * intros E. pose proof (ns_fresh_chan c self p (pr_next p + i) Hns Hp ltac:(lia)) as H0. assert (chans c !! k = None) as H1 by (rewrite E; exact H0). rewrite H1 in Hk. done.
Qed.
End steps.

(* ------------------------------------------------------------------ the fragment: weakening, no contraction *)
Fixpoint nosplit (f : form) : bool :=
  match f with
  | FRecv _ _ _ k | FWait _ k | FShift _ _ k | FPrint _ k | FDrop _ k => nosplit k
  | FCase _ bs => nosplit_brs bs
  | FNew _ b k => nosplit b && nosplit k
  | FSplit _ _ _ _ => false
  | _ => true
  end
with nosplit_brs (b : branches) : bool :=
  match b with BrNil => true | BrCons _ _ k r => nosplit k && nosplit_brs r end.

Record DropCfg (c : config) : Prop := {
  dc_procs : forall q pp, procs c !! q = Some pp -> nosplit (pr_body0 pp) = true /\ exists n, pr_provs pp = [n];
  dc_msgs : forall k st m, chans c !! k = Some st -> ch_buf st = Some m -> m_rule m = RFWD -> exists n, m_provs m = [n]
}.

Section typed_steps.
Variable D : tenv.
Variable F : list fundef.
Variable teq : sty -> sty -> Prop.
Hypothesis Hteq : teq_laws D teq.
Hypothesis HF : funs_typed D F teq.

Lemma chan_ty_init Δ n t : chan_ty teq Δ n t -> is_Some (chan n).
Proof.
  intros (_ & _ & H). destruct (chan n); [eauto|]. destruct H as (_ & t' & H & _). by rewrite lookup_empty in H.
Qed.

(* where a process receives: its own channel at a negative type, or a client channel at a positive one;
   a process never listens on the channel it provides as a client (rank of Topo) *)
Lemma recv_polarity Δ c self p k :
  cfg_typed D F teq Δ c -> Topo c -> procs c !! self = Some p -> action_of Async D p = ARecv k ->
  exists T, Δ !! k = Some T /\
    ((own_chan p k /\ pol_of_ty D T Neg) \/ (k ∈ form_chans (pr_body0 p) /\ pol_of_ty D T Pos)).
Proof.
  intros Hc Ht Hp Hact.
  pose proof (typed_action D F teq Hteq HF Δ p (ct_procs _ _ _ _ _ Hc self p Hp)) as Hv. rewrite Hact in Hv.
  by inversion Hv as [|k' _ Hside _| |]; subst.
Qed.

Lemma own_not_client c self p k : Topo c -> procs c !! self = Some p -> own_chan p k -> k ∈ form_chans (pr_body0 p) -> False.
Proof.
  intros Ht Hp (n & Hpv & Hn) Hin. destruct (topo_rank c Ht) as (rk & M & _ & Hlt).
  assert (rk k < rk k)%nat; [|lia]. apply (Hlt (OProc self p) k k Hp); [|done].
  cbn. rewrite Hpv. cbn. rewrite Hn. apply elem_of_list_here.
Qed.

(* a GC request is typed at a negative type: it reaches the provider, on its own channel *)
Lemma gc_on_self Δ c self p k st m :
  cfg_typed D F teq Δ c -> Topo c -> procs c !! self = Some p -> action_of Async D p = ARecv k ->
  chans c !! k = Some st -> ch_buf st = Some m -> m_rule m = RGC -> own_chan p k.
Proof.
  intros Hc Ht Hp Hact Hk Hb Hr.
  destruct (recv_polarity Δ c self p k Hc Ht Hp Hact) as (T & HT & [[Hown _]|[_ Hpos]]); [done|].
  destruct (ct_msgs _ _ _ _ _ Hc k st m Hk Hb) as (T' & HT' & Hm). rewrite Hr in Hm.
  assert (T' = T) by congruence. subst. by destruct (pol_unique D T Hpos Hm).
Qed.

(* a message on a channel of positive type is a positive message *)
Lemma pos_chan_pos_msg Δ k m T :
  msg_typed D teq Δ k m -> Δ !! k = Some T -> pol_of_ty D T Pos -> is_pos_rule (m_rule m) = true.
Proof.
  intros (T' & HT' & Hm) HT Hpos. assert (T' = T) by congruence. subst.
  destruct (m_rule m); try done; exfalso; apply (pol_unique D T Hpos).
  - destruct Hm as (A & B & md & Hw & _). by exists (TLolli A B md).
  - destruct Hm as (fm & tm & A & Hw & _). by exists (TUp fm tm A).
  - destruct Hm as (bs & md & A & Hw & _). by exists (TWith bs md).
  - by destruct Hm.
  - done.
Qed.
End typed_steps.

(* ------------------------------------------------------------------ one step, fragment with weakening *)
Section drop_step.
Variable D : tenv.
Variable F : list fundef.
Variable teq : sty -> sty -> Prop.
Hypothesis Hteq : teq_laws D teq.
Hypothesis HF : funs_typed D F teq.

Lemma names_cids_init n : names_cids (if initialized n then [n] else []) = name_cids n.
Proof. unfold initialized, names_cids, name_cids. destruct (chan n) eqn:E; cbn; [by rewrite E|done]. Qed.
Lemma Forall_init n : Forall (fun x => is_Some (chan x)) (if initialized n then [n] else []).
Proof. unfold initialized. destruct (chan n) eqn:E; constructor; [rewrite E; eauto|constructor]. Qed.

Lemma recv_form_obj n body next k : action_of Async D (Proc [n] body next) = ARecv k -> is_fwd body = false ->
  forall a, obj a body = SProc a body.
Proof.
  destruct body; cbn; unfold send_on, recv_on, internal; cbn; intros H Hf a; repeat case_match; try done.
Qed.

(* the step of a process whose head form is linear: a linear rule, or the receipt of a GC request *)
Lemma lin_case Δ c self n a body next c' :
  cfg_typed D F teq Δ c -> Topo c -> ns_ok c -> DropCfg c ->
  procs c !! self = Some (Proc [n] body next) -> chan n = Some a -> head_lin body ->
  step Async D F c (Run self) = SStep c' ->
  exists ls, sax_stepS01 F (α c) ls (α c') /\ labels c' = labels c ++ ls.
Proof.
  intros Hc Ht Hns Hdc Hp Hn Hlin Hstep.
  set (p := Proc [n] body next) in *.
  assert ((exists k st m, action_of Async D p = ARecv k /\ chans c !! k = Some st /\ ch_buf st = Some m /\ m_rule m = RGC) \/
          (forall k st m, action_of Async D p = ARecv k -> chans c !! k = Some st -> ch_buf st = Some m -> m_rule m <> RGC)) as [Hgc|Hng].
  { destruct (action_of Async D p) as [| |k0 m0|k0| |k0 pv|w] eqn:Hact; try (right; intros; congruence).
    destruct (chans c !! k0) as [st0|] eqn:Hk0; [|right; intros ? ? ? [= <-] ?; congruence].
    destruct (ch_buf st0) as [m1|] eqn:Hb0; [|right; intros ? ? ? [= <-] ? ?; congruence].
    destruct (rule_eqb (m_rule m1) RGC) eqn:Hr.
    - left. exists k0, st0, m1. split_and!; try done. by destruct (m_rule m1).
    - right. intros ? ? ? [= <-] ? ? E. assert (st = st0) by congruence. subst. assert (m = m1) by congruence. subst.
      rewrite E in Hr. done. }
  - (* a GC request: weakening reaches this process, and everything it uses *)
    destruct Hgc as (k & st & m & Hact & Hk & Hb & Hrule).
    apply step_run_async_inv in Hstep as (p0 & Hp0 & Hstep). assert (p0 = p) by congruence. subst p0.
    rewrite Hact in Hstep. destruct Hstep as (st' & Hk' & Hst). assert (st' = st) by congruence. subst st'.
    rewrite Hb in Hst. destruct Hst as (e & He & ->).
    destruct (gc_on_self D F teq Hteq HF Δ c self p k st m Hc Ht Hp Hact Hk Hb Hrule) as (n0 & Hpv & Hn0).
    unfold p in Hpv. cbn in Hpv. assert (n0 = n) by congruence. subst n0. assert (k = a) by congruence. subst k.
    assert (is_fwd body = false) as Hnf.
    { destruct body; try done. destruct droppable; [done|]. exfalso.
      unfold on_message in He. rewrite Hrule in He. cbn in He. done. }
    assert (e = let '(ss, cs, _) := droppable_fwds self p (free_names body) in Eff Finish ss cs [] []) as ->.
    { unfold on_message in He. rewrite Hrule in He. cbn in He.
      assert (match body with FFwd _ _ _ => true | _ => false end = false) as Hf by (by destruct body).
      rewrite Hf in He. cbn in He. destruct (droppable_fwds self p (free_names body)) as [[ss cs] p']. by simplify_eq. }
    destruct (droppable_fwds self p (free_names body)) as [[ss cs] p'] eqn:Hdf.
    destruct (ct_procs _ _ _ _ _ Hc self p Hp) as (s & rs & _ & _ & Hty). cbn in Hty.
    destruct (droppable_fwds_spec self _ _ _ _ _ Hdf) as (Hlen & Hcs & Hobjs).
    { apply Forall_forall. intros x Hx. destruct (free_names_closed D F teq Δ rs s body x Hty Hx) as [t Hct].
      by eapply chan_ty_init. }
    exists []. split; [right|by rewrite labels_effect, labels_put].
    eapply (refine_finish F c self p a st m ss cs [SDrop a; SProc a body]); try done.
    + assert (length (free_names body) = length cs) as Hlc by (rewrite Hcs; by rewrite map_length, seq_length).
      rewrite Hcs at 1. f_equal. f_equal. exact Hlc.
    + unfold proc_obj, msg_obj. cbn. rewrite Hn, Hrule, (recv_form_obj n body next a Hact Hnf a). apply Permutation_swap.
    + rewrite Hobjs. apply (s_gc _ a (SProc a body)). done.
  - (* a linear rule *)
    destruct (refines_sax01_at D F c self c') as (ls & H01 & Hl); [|done|exists ls; split; [by apply sax_step01_S|done]].
    intros p0 Hp0. assert (p0 = p) by congruence. subst p0. split_and!.
    + cbn. eauto.
    + done.
    + intros _. split_and!.
      * intros Hin. apply (alpha_cids_typed_gen D F teq Δ c _ Hc (dc_msgs c Hdc)) in Hin.
        pose proof (ns_fresh_chan c self p (pr_next p) Hns Hp ltac:(lia)) as H0. destruct Hin as [x Hx].
        unfold p in *. cbn in *. pose proof (eq_trans (eq_sym Hx) H0) as E. discriminate E.
      * eapply (ns_fresh_chan c self p _ Hns Hp). lia.
      * eapply (ns_fresh_proc c self p _ Hns Hp). lia.
    + intros k st Hact Hk. pose proof (tres_typed_topo D F teq Hteq HF Δ c Hc Ht self p k st Hp Hact Hk) as Hres.
      destruct (ch_buf st) as [m|] eqn:Hb; [|done]. split; [|done].
      destruct (ct_msgs _ _ _ _ _ Hc k st m Hk Hb) as (T & HT & Hm).
      unfold msg_ok. destruct (m_rule m) eqn:Hrule; try done.
      * destruct Hm as (A & B & md & _ & _ & (c0 & t' & Hc0 & _)). eauto.
      * destruct Hm as (fm & tm & A & _ & (c0 & t' & Hc0 & _)). eauto.
      * destruct Hm as (bs & md & A & _ & _ & (c0 & t' & Hc0 & _)). eauto.
      * destruct (dc_msgs c Hdc k st m Hk Hb Hrule) as [n' Hpv']. exists n'. split; [done|].
        destruct Hm as (_ & _ & Hall). rewrite Hpv' in Hall. apply Forall_cons_iff in Hall as [(c0 & t' & Hc0 & _) _]. eauto.
      * by destruct (Hng k st m Hact Hk Hb).
Qed.
End drop_step.
