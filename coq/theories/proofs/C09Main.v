(* proofs/C09Main.v — C09 assembled: the model of process.Typecheck = the caller/worker protocol
   (TcDriver) run on the worker's computation tc_program p (TcTop). *)
Require Import Grits.Base Grits.STypes Grits.Forms Grits.Infer Grits.TcDeps Grits.Expand Grits.Tc Grits.TcTop
               Grits.TcDriver Grits.proofs.TcEnv Grits.proofs.TcTotal Grits.proofs.TcDriverProofs Grits.proofs.TcInferFuel Grits.proofs.TcEqFuel.

(* the two facts about package `types` the proof relies on (C08 and mode inference) *)
Definition equal_terminates_stmt : Prop := forall D s t,
  sanity_typedefs D = Ok true -> check_wf D s = true -> check_wf D t = true -> exists b, equal_type D s t = Ok b.
Definition add_missing_total_stmt : Prop := forall D t,
  sanity_typedefs D = Ok true -> exists t', add_missing D t = Ok t'.

(* both are proved for the current definitions of package `types` in the model:
   proofs/TcInferFuel.v (infer_fuel suffices) and proofs/TcEqFuel.v (eq_fuel suffices) *)
Lemma add_missing_total_holds : add_missing_total_stmt.
Proof. intros D t _. apply add_missing_total. Qed.
Lemma equal_terminates_holds : equal_terminates_stmt.
Proof. intros D s t _ _ _. apply equal_type_total. Qed.

Theorem tc_total_1 : equal_terminates_stmt -> forall p, parsed p ->
  (forall w, typecheck p <> RejectInternal w) /\ (forall w, typecheck p <> Diverge w).
Proof. intros H. exact (tc_total H add_missing_total_holds). Qed.
Theorem tc_total_all_1 : equal_terminates_stmt -> forall p,
  (forall w, typecheck p <> RejectInternal w) /\ (forall w, typecheck p <> Diverge w).
Proof. intros H. exact (tc_total_all H add_missing_total_holds). Qed.

(* what process.Typecheck returns to its caller, for the schedule-independent part *)
Definition typecheck_returns (p : program) : option goerr := returns (tc_program p).

Theorem typecheck_total : equal_terminates_stmt -> forall p, parsed p ->
  (* the worker's computation is a verdict *)
  (forall w, typecheck p <> RejectInternal w) /\ (forall w, typecheck p <> Diverge w) /\
  (* and the protocol delivers exactly that verdict, on every schedule, leaving nothing behind *)
  exists r0,
    typecheck_returns p = Some r0 /\
    (r0 = None <-> exists p', typecheck p = Accept p') /\
    (r0 <> None <-> typecheck p = Reject) /\
    forall tr s, run (tc_program p) init tr s ->
      (length tr <= 6)%nat /\ crashed s = false /\
      (final s \/ exists l s', step (tc_program p) s l s') /\
      (stuck (tc_program p) s -> s = mkState (CReturned r0) WFinished None false) /\
      (forall r, cal s = CReturned r -> r = r0 /\ (wrk s = WDoneSent \/ wrk s = WFinished) /\ buf s = None) /\
      (forall r, wrk s = WHasResult r -> buf s = None /\ exists s', step (tc_program p) s LSend s') /\
      (wrk s = WDoneSent -> (exists s', step (tc_program p) s LExit s') /\
                            forall l s', step (tc_program p) s l s' -> l = LExit \/ (l = LRecv /\ wrk s' = WDoneSent)).
Proof.
  intros Heq p Hp. pose proof add_missing_total_holds as Ham.
  pose proof (tc_program_safe Heq Ham p) as Hsafe.
  destruct (tc_total Heq Ham p Hp) as [Hni Hnd].
  split; [exact Hni|]. split; [exact Hnd|].
  assert (Hnh : forall w, tc_program p <> THang w).
  { intros w E. rewrite E in Hsafe. exact Hsafe. }
  destruct (tc_protocol (tc_program p) Hnh) as (r0 & Hr0 & Hnil & _ & Hruns).
  exists r0. split; [exact Hr0|]. split; [|split; [|exact Hruns]].
  - rewrite Hnil. unfold typecheck. split.
    + intros [a E]. rewrite E. eauto.
    + intros [p' E]. destruct (tc_program p); try discriminate. eauto.
  - unfold typecheck. unfold typecheck_returns in Hr0. destruct (tc_program p) eqn:E; cbn in Hr0, Hsafe;
      inversion Hr0; subst; try contradiction; split; intros H; try discriminate; try reflexivity; congruence.
Qed.

(* premise-free versions *)
Theorem tc_total_closed : forall p, parsed p ->
  (forall w, typecheck p <> RejectInternal w) /\ (forall w, typecheck p <> Diverge w).
Proof. exact (tc_total_1 equal_terminates_holds). Qed.
Theorem tc_total_all_closed : forall p,
  (forall w, typecheck p <> RejectInternal w) /\ (forall w, typecheck p <> Diverge w).
Proof. exact (tc_total_all_1 equal_terminates_holds). Qed.
Definition typecheck_total_closed := typecheck_total equal_terminates_holds.
