(* proofs/C14AlphaEq.v — C14, general alpha-equivalence, program level: if two sources are accepted and their
   annotated outputs are alpha-equivalent declaration by declaration (`decl_aeq`: same types; functions
   related by `AlphaRun.frelA`; process bodies `aeq []`, same providers), the two programs run in lock step
   in the three modes, under every oracle and fuel: same result kind, same printed labels in order, same
   live processes.  (The invariant that keeps both runs typed is InvX, as in C14Alpha.v.) *)
From stdpp Require Import gmap strings sorting.
Require Import Grits.Base Grits.ModeDefs Grits.Modes Grits.STypes Grits.Forms Grits.Subst Grits.TcDeps Grits.Expand
               Grits.Tc Grits.TcTop Grits.spec.SynOk Grits.Runtime Grits.spec.RtTyping Grits.spec.Topo
               Grits.proofs.RtSafety Grits.proofs.RtInit Grits.proofs.RtTheorems Grits.proofs.RtTcSyn Grits.proofs.RtTcBisim
               Grits.proofs.AsyncSync Grits.proofs.InvAll Grits.proofs.InvNP Grits.proofs.DeterminismAll.
Require Import Grits.spec.Rename Grits.proofs.RenameRun Grits.proofs.RenameSimT Grits.proofs.RenameAlpha Grits.proofs.C14Alpha.
Require Import Grits.spec.Alpha Grits.spec.AlphaEq Grits.proofs.AlphaSubst Grits.proofs.AlphaFree Grits.proofs.AlphaStep Grits.proofs.AlphaRun.

(* process bodies of SOURCES carry no channel; their `self` names carry no identifier: raw aeq *)
Definition procrelA (pr pr' : procdef) : Prop :=
  pr_providers pr' = pr_providers pr /\ pr_type pr' = pr_type pr /\ aeq [] (pr_body pr) (pr_body pr').
Definition decl_aeq (p' q' : program) : Prop :=
  p_types q' = p_types p' /\ Forall2 frelA (p_funs p') (p_funs q') /\
  Forall2 procrelA (p_procs p') (p_procs q') /\
  Forall (fun n => chan n = None /\ ident n <> "") (concat (map pr_providers (p_procs p'))).

(* ---------------------------------------------------------------- SubstituteNameInitialization *)
Definition okpair (x : name * name) : Prop := chan (fst x) = None /\ ident (fst x) <> "" /\ initialized (snd x) = true.

Lemma fold_init_A : forall all R R', Forall okpair all ->
  aeq [] (nf' R) (nf' R') -> (forall x, x <> "" -> nos x R /\ nos x R') ->
  aeq [] (nf' (fold_left (fun b '(old, new) => subst old new b) all R)) (nf' (fold_left (fun b '(old, new) => subst old new b) all R')).
Proof.
  induction all as [|[old new] all IH]; intros R R' Hall H Hn; cbn [fold_left]; [exact H|].
  inversion Hall as [|? ? (O1 & O2 & O3) Hall']; subst. cbn [fst snd] in *.
  assert (Oi : initialized old = false) by (unfold initialized; now rewrite O1).
  destruct (Hn (ident old) O2) as [N1 N2].
  apply IH; [exact Hall'| |].
  - rewrite <- (proj1 (subst_B old new Oi O2) R N1), <- (proj1 (subst_B old new Oi O2) R' N2).
    apply aeq_nf'. apply aeq_subst_free0; [exact O1 | exact O2 | apply good_nonvar, good_init, O3 | cbn; auto | cbn; auto | exact H].
  - intros x Hx. destruct (Hn x Hx). split; apply nos_subst; auto using uself_init.
Qed.

Lemma providers_eq_genA l l' : Forall2 procrelA l l' -> map pr_providers l' = map pr_providers l.
Proof. induction 1 as [|pr pr' l l' (E & _) _ IH]; cbn [map]; [reflexivity|]. rewrite E. f_equal. exact IH. Qed.

Lemma all_okpair (ps : list procdef) : Forall (fun n => chan n = None /\ ident n <> "") (concat (map pr_providers ps)) ->
  forall k, Forall okpair (concat (imap (fun i pr => init_provs (k + i) (pr_providers pr)) ps)).
Proof.
  induction ps as [|pr ps IH]; intros Hf k; [constructor|]. rewrite imap_cons. cbn [concat].
  cbn [map concat] in Hf. apply Forall_app in Hf. destruct Hf as [H1 H2].
  apply Forall_app. split.
  - unfold init_provs. apply Forall_forall. intros x Hx. apply elem_of_list_In in Hx. apply elem_of_lookup_imap in Hx. destruct Hx as (j & old & -> & Hj).
    rewrite Forall_forall in H1. destruct (H1 old (proj1 (elem_of_list_In _ _) (elem_of_list_lookup_2 _ _ _ Hj))) as [A B]. repeat split; auto.
  - specialize (IH H2 (S k)). erewrite imap_ext; [exact IH|]. intros i x _. cbn. f_equal. lia.
Qed.

Section InitA.
Variables p' q' : program.
Hypothesis Hprocs : Forall2 procrelA (p_procs p') (p_procs q').
Hypothesis Hprov : Forall (fun n => chan n = None /\ ident n <> "") (concat (map pr_providers (p_procs p'))).

Lemma inits_eqA : imap (fun i pr => init_provs i (pr_providers pr)) (p_procs q') = imap (fun i pr => init_provs i (pr_providers pr)) (p_procs p').
Proof.
  pose proof (providers_eq_genA _ _ Hprocs) as E.
  assert (G : forall (l : list procdef), imap (fun i pr => init_provs i (pr_providers pr)) l = imap init_provs (map pr_providers l)).
  { intros l. change (map pr_providers l) with (pr_providers <$> l). rewrite imap_fmap. reflexivity. }
  now rewrite !G, E.
Qed.

Theorem init_crelA : crelA (init_config p') (init_config q').
Proof.
  unfold init_config. rewrite inits_eqA.
  set (inits := imap (fun i pr => init_provs i (pr_providers pr)) (p_procs p')). set (all := concat inits).
  assert (Hall : Forall okpair all) by (apply (all_okpair (p_procs p') Hprov 0)).
  split; [|split]; cbn [procs chans out]; [| |reflexivity].
  - pose proof (imap_pair_rel _ _ _ (combine_rel _ _ _ Hprocs inits) 0) as HL. cbn [Nat.add] in HL.
    assert (Hfold : forall L L',
      Forall2 (fun x x' : nat * (procdef * list (name * name)) =>
                 fst x' = fst x /\ (procrelA (fst (snd x)) (fst (snd x')) /\ snd (snd x') = snd (snd x))) L L' ->
      forall (m m' : gmap pid proc), (forall q, orel prelA (m !! q) (m' !! q)) ->
      forall q, orel prelA
        (fold_left (fun (m : gmap pid proc) '(i, (pr, ini)) =>
           <[ [i] := Proc (map snd ini) (fold_left (fun b '(old, new) => subst old new b) all (pr_body pr)) (length ini) ]> m) L m !! q)
        (fold_left (fun (m : gmap pid proc) '(i, (pr, ini)) =>
           <[ [i] := Proc (map snd ini) (fold_left (fun b '(old, new) => subst old new b) all (pr_body pr)) (length ini) ]> m) L' m' !! q)).
    { induction 1 as [|[i [pr ini]] [i' [pr' ini']] L L' (Ei & (_ & _ & Hb) & Eini) _ IH]; intros m m' Hm; [exact Hm|].
      cbn [fst snd] in *. subst i' ini'. cbn [fold_left]. apply IH.
      apply orel_insert; [exact Hm|]. split; [reflexivity|]. split; [reflexivity|]. cbn [pr_body0].
      destruct (proj1 aeq_erased _ _ _ Hb) as [X1 X2].
      apply fold_init_A; [exact Hall | now apply aeq_nf' |].
      intros x Hx. rewrite <- X1, <- X2. split; now apply nos_nf'. }
    apply (Hfold _ _ HL ∅ ∅). intros q. rewrite lookup_empty. exact I.
  - intros k.
    set (cm := fold_left (fun m '(_, new) => match chan new with Some k0 => <[k0 := empty_chan]> m | None => m end) all ∅).
    destruct (cm !! k) as [st|] eqn:E; cbn; [|exact I].
    assert (Hst : ch_buf st = None) by (apply (bufs_empty_init p' k st); exact E).
    split; [reflexivity|]. rewrite Hst. exact I.
Qed.
End InitA.

(* ---------------------------------------------------------------- accepted programs, the three modes *)
Theorem run_alpha p q p' q' md pick fuel :
  typecheck p = Accept p' -> typecheck q = Accept q' ->
  in_fragment p' -> in_fragment q' ->
  prog_syn_ok p = true -> prog_syn_ok q = true -> raw_ok p = true -> raw_ok q = true ->
  all_src_b p = true -> all_src_b q = true ->
  decl_aeq p' q' ->
  kind_of (run_program fuel pick md q') = kind_of (run_program fuel pick md p') /\
  labels (final_cfg (run_program fuel pick md q')) = labels (final_cfg (run_program fuel pick md p')) /\
  pids (final_cfg (run_program fuel pick md q')) = pids (final_cfg (run_program fuel pick md p')).
Proof.
  intros Ha Ha' Hf Hf' PS PS' RS RS' Hall Hall' (Et & Hfr & Hpr & Hpv). unfold run_program. rewrite Et.
  destruct (init_invx p p' Ha Hf PS RS Hall) as (HFa & HFn & HI).
  destruct (init_invx q q' Ha' Hf' PS' RS' Hall') as (HFa' & HFn' & HI'). rewrite Et in HI'.
  pose proof (tc_annotations_typed_rt p p' Ha PS RS Hf) as Hst.
  pose proof (tc_annotations_typed_rt q q' Ha' PS' RS' Hf') as Hst'. rewrite Et in Hst'.
  assert (HFq : funs_typed (p_types p') (p_funs q') (teq_rt (p_types p'))) by (destruct Hst' as [H _]; rewrite Et in H; exact H).
  pose proof (teq_rt_laws (p_types p')) as Hlaws.
  set (D := p_types p'). set (teq := teq_rt D).
  apply (run_relA_labels D (p_funs p') (p_funs q') teq (proj1 Hst) HFq Hfr md
           (fun c => InvX D (p_funs p') teq c /\ (md <> Async -> bufs_empty c))
           (fun c => InvX D (p_funs q') teq c /\ (md <> Async -> bufs_empty c))).
  - intros c [H _]. apply H.
  - intros c ch d [H1 H2] Hs. destruct md.
    + destruct (invx_step D (p_funs p') teq Hlaws (proj1 Hst) HFa HFn Async c ch d eq_refl H1 ltac:(discriminate) Hs) as [G _]. split; [exact G | intros N; contradiction].
    + destruct (invx_step D (p_funs p') teq Hlaws (proj1 Hst) HFa HFn Sync c ch d eq_refl H1 (fun _ => H2 ltac:(discriminate)) Hs) as [G1 G2]. split; [exact G1 | intros _; apply G2; reflexivity].
    + destruct (invx_step_np D (p_funs p') teq Hlaws (proj1 Hst) HFa HFn c ch d H1 (H2 ltac:(discriminate)) Hs) as [G1 G2]. split; [exact G1 | intros _; exact G2].
  - intros c [H _]. apply H.
  - intros c ch d [H1 H2] Hs. destruct md.
    + destruct (invx_step D (p_funs q') teq Hlaws HFq HFa' HFn' Async c ch d eq_refl H1 ltac:(discriminate) Hs) as [G _]. split; [exact G | intros N; contradiction].
    + destruct (invx_step D (p_funs q') teq Hlaws HFq HFa' HFn' Sync c ch d eq_refl H1 (fun _ => H2 ltac:(discriminate)) Hs) as [G1 G2]. split; [exact G1 | intros _; apply G2; reflexivity].
    + destruct (invx_step_np D (p_funs q') teq Hlaws HFq HFa' HFn' c ch d H1 (H2 ltac:(discriminate)) Hs) as [G1 G2]. split; [exact G1 | intros _; exact G2].
  - split; [exact HI | intros _; apply bufs_empty_init].
  - split; [exact HI' | intros _; apply bufs_empty_init].
  - apply init_crelA; assumption.
Qed.
