(* proofs/TypePerm.v — C14 (verdict half): ProgOK does not depend on the ORDER of the type definitions.
   Everything the judgement asks of the environment goes through tlookup (plus two sizes used as
   fuel), so two environments with the same lookups, length and size are interchangeable. *)
Require Import Grits.Base Grits.ModeDefs Grits.Modes Grits.STypes Grits.Forms Grits.Subst Grits.Infer
               Grits.TcDeps Grits.Expand Grits.Tc Grits.spec.Typing Grits.proofs.TcLemmas Grits.proofs.TcEnv.
Require Import Coq.Sorting.Permutation.

Definition env_equiv (D D' : tenv) : Prop :=
  (forall x, tlookup D x = tlookup D' x) /\ length D = length D' /\ env_size D = env_size D'.

Lemma env_equiv_sym D D' : env_equiv D D' -> env_equiv D' D.
Proof. intros [A [B C]]. repeat split; auto. Qed.

(* a permutation of an environment with distinct names is equivalent to it *)
Lemma tlookup_notin D x : ~ In x (map td_name D) -> tlookup D x = None.
Proof.
  induction D as [|d r IH]; cbn; auto. intros N. rewrite IH; [|intros H; apply N; now right].
  destruct (String.eqb x (td_name d)) eqn:E; auto. apply String.eqb_eq in E. exfalso. apply N. now left.
Qed.
Lemma tlookup_perm D D' : Permutation D D' -> NoDup (map td_name D) -> forall x, tlookup D x = tlookup D' x.
Proof.
  induction 1 as [|d l l' P IH|d1 d2 l|l l' l'' P1 IH1 P2 IH2]; intros N x; cbn; auto.
  - inversion N; subst. now rewrite IH.
  - cbn in N. inversion N as [|a b N1 N2]; subst. inversion N2 as [|a' b' N3 N4]; subst.
    destruct (tlookup l x); auto.
    destruct (String.eqb x (td_name d1)) eqn:E1, (String.eqb x (td_name d2)) eqn:E2; auto.
    apply String.eqb_eq in E1, E2. exfalso. apply N1. left. congruence.
  - rewrite IH1; auto. apply IH2. eapply Permutation_NoDup; [|exact N]. now apply Permutation_map.
Qed.
Lemma env_size_perm D D' : Permutation D D' -> env_size D = env_size D'.
Proof. unfold env_size. induction 1; cbn; lia. Qed.
Lemma perm_env_equiv D D' : Permutation D D' -> NoDup (map td_name D) -> env_equiv D D'.
Proof. intros P N. repeat split; auto using tlookup_perm, Permutation_length, env_size_perm. Qed.

Section Ext.
Variables D D' : tenv.
Hypothesis EQ : env_equiv D D'.
Let EL : forall x, tlookup D x = tlookup D' x := proj1 EQ.

Lemma head_ext t h : head D t h -> head D' t h.
Proof. induction 1; [now constructor|]. eapply head_step; eauto. now rewrite <- EL. Qed.

Lemma check_labels_ext :
  (forall t, check_labels D' t = check_labels D t) /\
  (forall b seen, check_labels_brs D' seen b = check_labels_brs D seen b).
Proof.
  apply sty_brs_ind; intros; cbn [check_labels check_labels_brs]; auto; try congruence.
  now rewrite EL.
Qed.
Lemma check_modes_ext :
  (forall t cur, check_modes D' cur t = check_modes D cur t) /\
  (forall b cur, check_modes_brs D' cur b = check_modes_brs D cur b).
Proof.
  apply sty_brs_ind; intros; cbn [check_modes check_modes_brs]; auto; try congruence.
  now rewrite EL.
Qed.
Lemma check_wf_ext t : check_wf D' t = check_wf D t.
Proof. unfold check_wf. now rewrite (proj1 check_labels_ext), (proj1 check_modes_ext). Qed.

Lemma infer_ext : forall fuel,
  (forall t used, infer fuel D' t used = infer fuel D t used) /\
  (forall b used, infer_brs fuel D' b used = infer_brs fuel D b used).
Proof.
  induction fuel as [|f [IHt IHb]]; [split; reflexivity|]. split.
  - intros t used. destruct t; cbn [infer]; try reflexivity; rewrite <- ?EL, ?IHt, ?IHb; try reflexivity.
    destruct (negb (is_unset m)); auto. destruct (tlookup D x); auto. destruct (negb (str_mem x used)); auto.
  - intros b used. destruct b; cbn [infer_brs]; [reflexivity|]. now rewrite IHt, IHb.
Qed.
Lemma assign_ext :
  (forall t cur, assign D' cur t = assign D cur t) /\ (forall b cur, assign_brs D' cur b = assign_brs D cur b).
Proof.
  apply sty_brs_ind; intros; cbn [assign assign_brs]; try congruence. now rewrite EL.
Qed.
Lemma add_missing_ext t : add_missing D' t = add_missing D t.
Proof.
  unfold add_missing, infer_fuel. pose proof (proj1 (proj2 EQ)) as L. pose proof (proj2 (proj2 EQ)) as S.
  rewrite <- L, <- S, (proj1 (infer_ext _)).
  destruct (infer _ D t []) as [[m u]| |]; cbn; auto. now rewrite (proj1 assign_ext).
Qed.

Lemma contractive_f_ext : forall fuel seen t, contractive_f fuel D' seen t = contractive_f fuel D seen t.
Proof.
  induction fuel as [|f IH]; intros seen t; [reflexivity|]. destruct t; cbn [contractive_f]; try reflexivity.
  rewrite <- EL. destruct (str_mem x seen); auto. destruct (tlookup D x); auto.
Qed.
Lemma contractive_ext t : contractive D' t = contractive D t.
Proof. unfold contractive. pose proof (proj1 (proj2 EQ)) as L. rewrite <- L. apply contractive_f_ext. Qed.
End Ext.

(* the environment check *)
Lemma sanity_loop_intro D : forall l,
  (forall d, In d l -> contractive D (td_body d) = Ok true /\ check_wf D (td_body d) = true) ->
  sanity_loop D l = Ok true.
Proof.
  induction l as [|d l IH]; intros H; [reflexivity|]. rewrite sanity_loop_cons.
  destruct (H d (or_introl eq_refl)) as [C W]. rewrite C. cbn. rewrite W. apply IH. intros e He. apply H. now right.
Qed.

Lemma sanity_perm D D' : Permutation D D' -> sanity_typedefs D = Ok true -> sanity_typedefs D' = Ok true.
Proof.
  intros P S. rewrite sanity_typedefs_eq in S.
  destruct (has_dup (map td_name D)) eqn:HD; [discriminate|]. apply has_dup_NoDup in HD.
  destruct (forallb (sanity_pred D) D) eqn:FA; cbn in S; [|discriminate].
  pose proof (perm_env_equiv _ _ P HD) as EQ.
  rewrite sanity_typedefs_eq.
  assert (HD' : has_dup (map td_name D') = false).
  { apply has_dup_NoDup. eapply Permutation_NoDup; [|exact HD]. now apply Permutation_map. }
  rewrite HD'. rewrite forallb_forall in FA.
  assert (FA' : forallb (sanity_pred D') D' = true).
  { apply forallb_forall. intros d Hd. apply Permutation_sym in P. pose proof (Permutation_in _ P Hd) as Hd0.
    specialize (FA _ Hd0). unfold sanity_pred in *. now rewrite (check_wf_ext D D' EQ). }
  rewrite FA'. cbn. apply sanity_loop_intro. intros d Hd.
  apply Permutation_sym in P. pose proof (Permutation_in _ P Hd) as Hd0.
  rewrite (contractive_ext D D' EQ), (check_wf_ext D D' EQ). split.
  - eapply sanity_loop_inv; eauto.
  - specialize (FA _ Hd0). unfold sanity_pred in FA. apply andb_true_iff in FA. tauto.
Qed.

(* ---------------------------------------------------------------- the judgement *)
Section Judgement.
Variable teq : tenv -> sty -> sty -> Prop.
Variables D D' : tenv.
Hypothesis EQ : env_equiv D D'.
Hypothesis teq_ext : forall s t, teq D s t -> teq D' s t.
Variable Sg : sigma.

Lemma split_ctx_ext g ns acc gl gr : split_ctx D g ns acc gl gr -> split_ctx D' g ns acc gl gr.
Proof. induction 1; [constructor|now apply split_self|eapply split_take; eauto using head_ext]. Qed.
Lemma typed_args_ext g args params g' : TypedArgs teq D g args params g' -> TypedArgs teq D' g args params g'.
Proof. induction 1; [constructor|econstructor; eauto using head_ext]. Qed.

Hint Resolve head_ext split_ctx_ext typed_args_ext : ext.

Theorem typed_env_ext_all :
  (forall g sh A f, Typed teq D Sg g sh A f -> Typed teq D' Sg g sh A f) /\
  (forall g bs b, TypedBrsR teq D Sg g bs b -> TypedBrsR teq D' Sg g bs b) /\
  (forall g sh A bs b, TypedBrsL teq D Sg g sh A bs b -> TypedBrsL teq D' Sg g sh A bs b).
Proof.
  apply Typed_mutind; intros.
  - eapply T_TensorR; eauto with ext.
  - eapply T_TensorL; eauto with ext.
  - eapply T_LolliR; eauto with ext.
  - eapply T_LolliL; eauto with ext.
  - eapply T_PlusR; eauto with ext.
  - eapply T_PlusL; eauto with ext.
  - eapply T_WithR; eauto with ext.
  - eapply T_WithL; eauto with ext.
  - eapply T_OneR; eauto with ext.
  - eapply T_OneL; eauto with ext.
  - eapply T_DownR; eauto with ext.
  - eapply T_DownL; eauto with ext.
  - eapply T_UpR; eauto with ext.
  - eapply T_UpL; eauto with ext.
  - eapply T_Id; eauto with ext.
  - eapply T_CutCall; eauto with ext.
    intros xt Nx. match goal with AN : forall xt, nty x = Some xt -> _ |- _ => destruct (AN _ Nx) as [xt1 [AM [Wx Te]]] end.
    exists xt1. rewrite (add_missing_ext D D' EQ), (check_wf_ext D D' EQ). auto.
  - eapply T_CutAx; eauto with ext.
    + now rewrite (add_missing_ext D D' EQ).
    + now rewrite (check_wf_ext D D' EQ).
  - eapply T_Call; eauto with ext.
  - eapply T_CallSelf; eauto with ext.
  - eapply T_Drop; eauto with ext.
  - eapply T_Split; eauto with ext.
  - eapply T_Print; eauto.
  - constructor.
  - econstructor; eauto with ext.
  - constructor.
  - econstructor; eauto with ext.
Qed.
End Judgement.

Lemma Forall2_impl {A B} (R S : A -> B -> Prop) l l' : (forall a b, R a b -> S a b) -> Forall2 R l l' -> Forall2 S l l'.
Proof. intros H. induction 1; constructor; auto. Qed.

(* ---------------------------------------------------------------- programs *)
Definition teq_env_invariant (teq : tenv -> sty -> sty -> Prop) : Prop :=
  forall D D' s t, env_equiv D D' -> teq D s t -> teq D' s t.

Section Prog.
Variable teq : tenv -> sty -> sty -> Prop.
Hypothesis teq_inv : teq_env_invariant teq.

Lemma elab_name_ext D D' n n' : env_equiv D D' -> elab_name D n n' -> elab_name D' n n'.
Proof. intros EQ [t [t' [E1 [E2 E3]]]]. exists t, t'. rewrite (add_missing_ext D D' EQ). auto. Qed.

Theorem typing_type_perm p D' : Permutation (p_types p) D' -> ProgOK teq p ->
  ProgOK teq {| p_procs := p_procs p; p_assumed := p_assumed p; p_funs := p_funs p; p_types := D' |}.
Proof.
  intros P [pe [[ET [EF [EP EA]]] [SD NF [Sg [SO [FO PO]]] NA TA NP DJ U1 U2 U3 AC PN]]].
  rewrite ET in *.
  assert (ND : NoDup (map td_name (p_types p))).
  { rewrite sanity_typedefs_eq in SD. destruct (has_dup (map td_name (p_types p))) eqn:HD; [discriminate|].
    now apply has_dup_NoDup. }
  pose proof (perm_env_equiv _ _ P ND) as EQ.
  exists {| p_procs := p_procs pe; p_assumed := p_assumed pe; p_funs := p_funs pe; p_types := D' |}. split.
  - repeat split; cbn [p_types p_funs p_procs p_assumed]; auto.
    + eapply Forall2_impl; [|exact EF]. intros f f' [t [t' [ps' [E1 [E2 [E3 E4]]]]]]. exists t, t', ps'.
      rewrite (add_missing_ext _ _ EQ). repeat split; auto.
      eapply Forall2_impl; [|exact E3]. intros n n'. now apply elab_name_ext.
    + eapply Forall2_impl; [|exact EP]. intros q q' [t [t' [E1 [E2 E3]]]]. exists t, t'.
      rewrite (add_missing_ext _ _ EQ). auto.
    + eapply Forall2_impl; [|exact EA]. intros n n'. now apply elab_name_ext.
  - assert (TN : forall n, typed_name_ok (p_types p) n -> typed_name_ok D' n).
    { intros n [t [Nt Wt]]. exists t. now rewrite (check_wf_ext _ _ EQ). }
    constructor; cbn [p_types p_funs p_procs p_assumed]; auto.
    + eapply sanity_perm; eauto.
    + exists Sg. repeat split.
      * eapply Forall2_impl; [|exact SO]. intros f s [E1 [E2 [t [h [Ft [Hh Es]]]]]]. repeat split; auto.
        exists t, h. repeat split; auto. eapply head_ext; eauto.
      * eapply Forall_impl; [|exact FO]. intros f [N T [t [Ft [Wt [I Ty]]]]]. constructor; auto.
        -- eapply Forall_impl; [|exact T]. exact TN.
        -- exists t. rewrite (check_wf_ext _ _ EQ). repeat split; auto.
           eapply (proj1 (typed_env_ext_all teq _ _ EQ (fun s t => teq_inv _ _ s t EQ) Sg)); eauto.
      * eapply Forall_impl; [|exact PO]. intros q [[t [Pt [Wt [C Ty]]]]]. constructor. exists t.
        rewrite (check_wf_ext _ _ EQ). repeat split; auto.
        eapply (proj1 (typed_env_ext_all teq _ _ EQ (fun s t => teq_inv _ _ s t EQ) Sg)); eauto.
    + eapply Forall_impl; [|exact TA]. exact TN.
Qed.
End Prog.
