(* Host.v — one OS process (the web server, the benchmark driver, a test binary) that parses,
   typechecks and executes many programs one after another.  The host's state is what earlier calls
   leave behind: goroutines of finished runs.  After the runtime cancels a run's context, a process
   goroutine that reaches (or is blocked in) a transition helper observes ctx.Done and returns; one
   blocked in a direct channel operation (the two forward cases, a heartbeat send) stays blocked
   forever on a channel of ITS OWN run.  Nothing else is shared: the parser, the typechecker and the
   interpreter keep no package-level mutable state (the model functions take no host argument; that
   this is true of the code is what the `seq` correspondence checks). *)
From stdpp Require Import gmap.
Require Import Grits.Base Grits.STypes Grits.Forms Grits.Expand Grits.Tc Grits.TcTop Grits.Runtime.

Inductive outcome1 : Type :=
| OParseErr
| OReject
| OAcceptOpen                      (* accepted, has assumed names: not executed by the drivers *)
| ORan (ls : list string)          (* executed to quiescence, labels printed (in order) *)
| ORuntimeError (ls : list string)
| ONonTerminating.

Inductive leftover : Type :=
| LFinishing                       (* will observe ctx.Done and return, printing nothing *)
| LBlockedForever.                 (* blocked in a direct channel operation of its own (dead) run *)

Definition leftover_of (md : exec_mode) (D : tenv) (p : proc) : leftover :=
  match pr_body0 p with
  | FFwd _ _ _ => LBlockedForever
  | _ => LFinishing
  end.

Section Host.
Variable pick : nat -> nat -> nat.
Variable fuel : nat.

(* one program, given only its text *)
Definition run_alone (s : string) : outcome1 * list leftover :=
  match parse_string s with
  | POk p =>
    match typecheck p with
    | Accept p' =>
      match p_assumed p' with
      | _ :: _ => (OAcceptOpen, [])
      | [] =>
        match exec_run fuel pick Async (p_types p') (p_funs p') (init_config p') with
        | RQuiescent c => (ORan (labels c), map (fun kv => leftover_of Async (p_types p') (snd kv)) (map_to_list (procs c)))
        | RError c _ _ => (ORuntimeError (labels c), [])
        | ROutOfFuel _ => (ONonTerminating, [])
        end
      end
    | _ => (OReject, [])
    end
  | _ => (OParseErr, [])
  end.
Definition outcome_alone (s : string) : outcome1 := fst (run_alone s).

Record host : Type := { h_left : list leftover; h_output : list string }.
Definition fresh_host : host := {| h_left := []; h_output := [] |}.

(* a leftover goroutine gets scheduled: it either ends or stays where it is; it never prints *)
Definition leftover_step (l : leftover) : option leftover * list string :=
  match l with
  | LFinishing => (None, [])
  | LBlockedForever => (Some LBlockedForever, [])
  end.

(* the host lets any of its leftovers run (chosen by `who`), then runs the next program *)
Definition host_step_leftovers (who : list nat) (h : host) : host :=
  fold_left (fun h i =>
               match nth_error (h_left h) i with
               | Some l =>
                 let '(l', o) := leftover_step l in
                 {| h_left := firstn i (h_left h) ++ match l' with Some x => [x] | None => [] end ++ skipn (S i) (h_left h);
                    h_output := h_output h ++ o |}
               | None => h
               end) who h.

Definition host_run (who : list nat) (h : host) (s : string) : outcome1 * host :=
  let h1 := host_step_leftovers who h in
  let '(o, ls) := run_alone s in
  (o, {| h_left := h_left h1 ++ ls;
         h_output := h_output h1 ++ match o with ORan l | ORuntimeError l => l | _ => [] end |}).

(* a history: programs with the scheduling of leftovers before each *)
Fixpoint host_runs (h : host) (hist : list (list nat * string)) : list outcome1 * host :=
  match hist with
  | [] => ([], h)
  | (who, s) :: r =>
    let '(o, h1) := host_run who h s in
    let '(os, h2) := host_runs h1 r in
    (o :: os, h2)
  end.
End Host.
