(* Expand.v — parser/parser.go: ParseString = scan + LR parse + expandProcesses + SetModalityTypeDef. *)
Require Import Grits.Base Grits.ModeDefs Grits.Modes Grits.STypes Grits.Forms Grits.Subst Grits.Infer
               Grits.Tokens Grits.Scan Grits.LR Grits.Actions.

Inductive parse_result (A : Type) : Type :=
| POk (a : A)
| PErr (why : string)             (* a parse error is returned *)
| PPanic (why : string)
| PHang (why : string).
Arguments POk {A} a.
Arguments PErr {A} why.
Arguments PPanic {A} why.
Arguments PHang {A} why.

(* GetFunctionByNameArity *)
Fixpoint get_function (fs : list fundef) (f : string) (arity : nat) : option fundef :=
  match fs with
  | [] => None
  | d :: r =>
    if String.eqb (fn_name d) f && ((length (fn_params d) =? arity)%nat || (S (length (fn_params d)) =? arity)%nat)
    then Some d else get_function r f arity
  end.

Definition expand_fun (f : fundef) : fundef :=
  match fn_explicit f with
  | Some ep => {| fn_name := fn_name f; fn_params := fn_params f; fn_body := subst ep ep (fn_body f);
                  fn_type := fn_type f; fn_explicit := fn_explicit f |}
  | None => f
  end.

(* first pass: functions, types, processes, assumed names, in statement order *)
Fixpoint expand1 (l : list stmt) (procs : list procdef) (assumed : list name) (funs : list fundef) (tys : tenv)
  : parse_result (list procdef * list name * list fundef * tenv) :=
  match l with
  | [] => POk (procs, assumed, funs, tys)
  | s :: r =>
    match s with
    | SFun f => expand1 r procs assumed (funs ++ [expand_fun f]) tys
    | SType x t => expand1 r procs assumed funs (tys ++ [{| td_name := x; td_body := t; td_mode := Unset |}])
    | SProc provs ty body =>
      match provs with
      | [p] =>
        expand1 r (procs ++ [{| pr_body := subst p p body; pr_providers := provs; pr_type := ty |}]) assumed funs tys
      | _ =>
        let fn := free_names body in
        if existsb (fun j => contained_in j fn) provs
        then PErr "provider name referenced directly in a multi-provider process"
        else expand1 r (procs ++ [{| pr_body := body; pr_providers := provs; pr_type := ty |}]) assumed funs tys
      end
    | SAssume ns => expand1 r procs (assumed ++ ns) funs tys
    | SExec _ => expand1 r procs assumed funs tys
    end
  end.

Definition nat_to_string (n : nat) : string :=
  (fix go (fuel n : nat) (acc : string) : string :=
     match fuel with
     | O => acc
     | S f => let d := String (ascii_of_nat (48 + n mod 10)) acc in
              if (n / 10 =? 0)%nat then d else go f (n / 10) d
     end) (S n) n "".

(* second pass: exec statements become processes execN *)
Fixpoint expand_exec (l : list stmt) (funs : list fundef) (count : nat) (procs : list procdef)
  : parse_result (list procdef) :=
  match l with
  | [] => POk procs
  | SExec f :: r =>
    match get_function funs f 0 with
    | None => PErr "invalid calling exec"
    | Some fd =>
      expand_exec r funs (S count)
        (procs ++ [{| pr_body := FCall f [] None;
                      pr_providers := [mkName ("exec" ^^ nat_to_string (S count)) true None None None];
                      pr_type := fn_type fd |}])
    end
  | _ :: r => expand_exec r funs count procs
  end.

Definition expand (l : list stmt) : parse_result program :=
  match expand1 l [] [] [] [] with
  | POk (procs, assumed, funs, tys) =>
    match expand_exec l funs 0 procs with
    | POk procs' =>
      match set_modality_typedefs tys with
      | Ok tys' => POk {| p_procs := procs'; p_assumed := assumed; p_funs := funs; p_types := tys' |}
      | Panic w => PPanic w
      | Hang w => PHang w
      end
    | PErr w => PErr w | PPanic w => PPanic w | PHang w => PHang w
    end
  | PErr w => PErr w | PPanic w => PPanic w | PHang w => PHang w
  end.

(* fuel of the LR driver: generous; proofs/LRCert.v shows the certificate bound is below it *)
Definition lr_fuel (n : nat) : nat := 64 * (n + 2).

Definition has_illegal (toks : list (tk * string)) : bool :=
  existsb (fun tv => tk_eqb (fst tv) T_ILLEGAL) toks.

Definition parse_statements (s : string) : parse_result (list stmt) :=
  match scan_all s with
  | ScanHang => PHang "scanner"
  | Tokens toks =>
    match parse_tokens sval VUnit tok_val reduce_action (lr_fuel (length toks)) toks with
    | LROutOfFuel => PHang "parser"
    | LRActionError p => PPanic "semantic action"
    | LRSyntaxError => PErr "syntax error"
    | LRAccept v =>
      (* the lexer recorded an error for an illegal character: Parse returns it *)
      if has_illegal toks then PErr "illegal character"
      else match v with
           | VStmts l => POk l
           | _ => PPanic "root value"
           end
    end
  end.

Definition parse_string (s : string) : parse_result program :=
  match parse_statements s with
  | POk l => expand l
  | PErr w => PErr w | PPanic w => PPanic w | PHang w => PHang w
  end.
