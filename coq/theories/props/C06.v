(* C06 — mode independence: no provider depends on a weaker-mode channel.
   Statement: spec/Indep.v (IndepProgram over the sequents of spec/Sequents.v): every sequent of the
   derivation of every function definition, and the root of every spawned process (cut body)
   anywhere, is independent; every cast/shift moves between a legal pair of modes.
   NOT covered: the root sequent of a top-level `prc` declaration (known finding K1: the
   implementation does not check it) - the sequents of a prc are independent if its root is;
   C06_refuted_prc_root is the witness that the root can fail.
   No premise: that the mode recorded for a type definition is the mode of its body is checked by
   sanity_typedefs since the fix of F23. *)
Require Import Grits.Base Grits.Forms Grits.Expand Grits.Tc Grits.TcTop
               Grits.spec.Linear Grits.spec.Sequents Grits.spec.Indep
               Grits.spec.Oracle Grits.proofs.IndepTop Grits.proofs.OracleProofs Grits.proofs.Witnesses.

Theorem C06_program : forall p p', typecheck p = Accept p' -> IndepProgram p p'.
Proof. exact tc_indep_program. Qed.

Theorem C06_refuted_prc_root :
  exists p p' pd pd',
    parse_string k1_text = POk p /\ typecheck p = Accept p' /\
    In (pd, pd') (combine (p_procs p) (p_procs p')) /\ ~ independent (proc_root p' pd pd').
Proof. exact k1_refutes. Qed.

(* the executable oracle of the check: per sequent it decides the statement, and the model never
   accepts a program it flags (the K1 shape apart) *)
Theorem C06_oracle_sequent_exact : forall D s,
  (independent_b s = true <-> independent s) /\ (shift_legal_b D s = true <-> shift_legal D s).
Proof. exact (fun D s => conj (independent_b_iff s) (shift_legal_b_iff D s)). Qed.
Theorem C06_oracle_agrees : forall p p', typecheck p = Accept p' ->
  indep_program_v p = IndepOk \/ exists n, indep_program_v p = IndepK1 n.
Proof. exact ind_oracle_agrees. Qed.

(* non-vacuity *)
Example C06_example_accepted : parse_string ex_text = POk ex_p /\ typecheck ex_p = Accept ex_p' /\ env_moded_b (p_types ex_p) = true.
Proof. exact (conj ex_parses (conj ex_accepted ex_moded)). Qed.
Example C06_example_sequents :
  map (fun ff => length (fun_sequents ex_p ex_p' (fst ff) (snd ff))) (combine (p_funs ex_p) (p_funs ex_p')) = [9; 6].
Proof. exact ex_sequents. Qed.
Example C06_example_independent : IndepProgram ex_p ex_p'.
Proof. exact (tc_indep_program _ _ ex_accepted). Qed.

Print Assumptions C06_program.
Print Assumptions C06_refuted_prc_root.
Print Assumptions C06_oracle_sequent_exact.
Print Assumptions C06_oracle_agrees.
