(* C13 — data-race freedom, the part that can be a theorem (partial by nature, see DESIGN.md):
   every field of the two structs shared by the goroutines of a run follows one of three
   synchronisation disciplines, over the access table REGENERATED from process/*.go on every run
   (finite; closed by computation; the table and the bound are in gen/SharedAccess.v).
   Not proved: that the disciplines imply race freedom under the Go memory model, and the
   ownership of the Form trees that processes mutate in place — both rest on the race-detector runs
   of the check. *)
Require Import Grits.Base Grits.SharedDefs Grits.gen.SharedAccess Grits.SharedDiscipline Grits.proofs.SharedProofs.

Theorem C13_discipline_holds : discipline_ok = true.
Proof. exact discipline_holds. Qed.

Theorem C13_every_field_classified : all_fields_classified = true.
Proof. exact every_field_classified. Qed.

Theorem C13_atomic_fields_disciplined : forall a b,
  In a accesses -> In b accesses ->
  a_struct a = a_struct b -> a_field a = a_field b ->
  discipline_of (a_struct a) (a_field a) = Some DAtomic ->
  is_init a = false -> is_init b = false ->
  is_atomic (a_kind a) = true /\ is_atomic (a_kind b) = true.
Proof. exact atomic_fields_disciplined. Qed.

Theorem C13_init_only_fields_never_written : forall a,
  In a accesses -> discipline_of (a_struct a) (a_field a) = Some DInitOnly ->
  is_init a = false -> a_kind a = KRead.
Proof. exact init_only_fields_never_written. Qed.

Theorem C13_owned_fields_single_goroutine : forall a g readers,
  In a accesses -> discipline_of (a_struct a) (a_field a) = Some (DOwned g readers) ->
  is_init a = false ->
  only_owner g a = true \/ (a_kind a = KRead /\ str_mem (a_fn a) readers = true /\ in_goroutine a = false).
Proof. exact owned_fields_single_goroutine. Qed.

(* non-vacuity: the table is not empty and contains concurrent atomic accesses *)
Example C13_table_nonempty : 100 <= length accesses /\
  In (mkAccess "RuntimeEnvironment" "debugChannelCounter" "CreateFreshChannel" KAtomic true false false) accesses.
Proof. split; [vm_compute; repeat constructor | vm_compute; tauto]. Qed.

Print Assumptions C13_discipline_holds.
Print Assumptions C13_every_field_classified.
Print Assumptions C13_atomic_fields_disciplined.
Print Assumptions C13_init_only_fields_never_written.
Print Assumptions C13_owned_fields_single_goroutine.
