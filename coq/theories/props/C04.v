(* C04 — results and causal order agree with the SAX operational semantics.

   CAUSAL ORDER — whole model (14 forms, DUP/FWD/GC, Async / Sync / NP), every run, no bound:
     C04_trace_causal            what `exec_trace` returns from the initial configuration of ANY program is a
                                 run of `step`; in it every receive follows its send, every actor was spawned
                                 earlier (identifiers are never reused), the output grows by the events'
                                 labels attributed to the acting process, and the positions of the prints in
                                 `labels` respect the happens-before relation THE CHECK COMPUTES (hb1_py)
     C04_trace_causal_any_start  the same facts from any configuration satisfying causal_inv
     C04_prints_respect_causality `labels c_final` is a linear extension of happens-before on print events
     C04_hb_is_the_checks_relation  tc hb1_py = hb on every run
   RESULTS — Async mode, linear connective fragment {1, ⊗, ⊸, ⊕, &, ↓, ↑, cut, id, call, print}:
     C04_refines_sax             one model step = zero or one step of spec/Sax.v (linear rules) between the
                                 abstractions, same labels — under the local invariant Inv
     C04_refines_sax_run         along every run on which Inv holds
     C04_prints_admitted_partial the labels of a run are printed by a Sax execution from the program's own SAX
                                 configuration Sax.sax_init p (C04_alpha_init); _partial: its premise is the
                                 residue `tres` of C01's configuration typing at the visited configurations
                                 (a FWD request only reaches a non-forward process waiting on its own channel;
                                 nobody receives from a closed empty channel) — everything structural in Inv
                                 is proved inductive (the three C04_structural_invariant theorems); full statement:
                                 SaxRefine.prints_admitted_stmt
     C04_prints_admitted_checked(_init)  no premise: Inv is checked by `inv_b` before every step of the run
     C04_prints_admitted         NO premise about runs: for every parsed, accepted, closed program passing the
                                 computable check init_linear, every Async run prints labels that
                                 Sax.v prints from sax_init p (the residue and Inv are derived from C01/C03's
                                 invariant of the core fragment, proofs/SaxTyped.v); C04_prints_admitted_polarized:
                                 also the synchronous polarized mode
     C04_prints_admitted_core    the same with init_linear derived from acceptance: premises = parses, accepted, closed,
                                 core_src_b on the SOURCE program (C04_prints_admitted_polarized_core: both polarized modes)
     C04_prints_admitted_drop    WEAKENING: the same for programs with `drop` (no split, one provider name per process),
                                 Async mode, into Sax.v with its structural rules s_drop / s_gc (C04_refines_sax_drop)
     C04_prints_admitted_all     CONTRACTION as well: every parsed, accepted, closed program with one provider name per declaration
                                 (drop, split, all connectives), both polarized modes (C04_refines_sax_all: one model step is zero or
                                 one step of Sax.v with its structural rules)
     C04_prints_admitted_np_plain  NON-POLARIZED mode, plain programs (no forward / drop / split, one provider name per
                                 process): an NP run IS the synchronous run (PlainNP.plain_run_eq)
     C04_prints_admitted_np_fwd  NON-POLARIZED mode, programs with FORWARDS (no drop, no split, one provider name per process):
                                 Control f t is Sax's rule id (C04_refines_sax_np_control); per step C04_refines_sax_np;
                                 with C03's NP determinism: C04_results_unique_admitted_np_fwd
     C04_prints_admitted_all2    TWO PROVIDER NAMES: the same for every parsed, accepted, closed program whose declarations have one or
                                 two provider names, from spec/SaxInit2.sax_init2 (= sax_init on single-name programs;
                                 C04_alpha_init2: it is the abstraction of the interpreter's initial configuration)
   What rests on the correspondence only: that the real interpreter's prints and their order are the
   model's (suite `run`); results for programs with declarations of MORE THAN TWO provider names (n-ary split); results in
   the non-polarized mode for programs with drop (NP reclaims nothing: the dropped subtree stays as objects that
   Sax.v may still step, next to a pending drop request that never fires — a simulation up to such garbage is
   not proved) or split. *)
From stdpp Require Import gmap strings.
Require Import Grits.Base Grits.Forms Grits.STypes Grits.Runtime.
Require Import Grits.spec.Sax Grits.proofs.Causality Grits.proofs.SaxRefine Grits.proofs.SaxInv Grits.proofs.C04Examples.
Require Import Grits.Expand Grits.TcTop Grits.spec.RtTyping Grits.spec.Topo Grits.proofs.RtTheorems Grits.proofs.RtTcSyn
               Grits.proofs.TopoLin Grits.proofs.TopoStep Grits.proofs.TopoReach Grits.proofs.AsyncSync Grits.proofs.SaxTyped Grits.proofs.DeterminismAll
               Grits.proofs.InitAccept Grits.proofs.SaxAccept Grits.proofs.InvAll Grits.proofs.SaxDrop Grits.proofs.SaxSplit
               Grits.proofs.DeterminismNP Grits.proofs.SaxNP Grits.spec.SaxInit2 Grits.proofs.SaxTwo Grits.proofs.DeterminismNPCfree.

Theorem C04_trace_causal : forall md (p : program) fuel pick r tr,
  exec_trace fuel pick md (p_types p) (p_funs p) (init_config p) [] = (r, tr) ->
  steps md (p_types p) (p_funs p) (init_config p) tr (res_config r) /\
  trace_causal_stmt md (p_types p) (p_funs p) (init_config p) tr (res_config r) /\
  labels (res_config r) = concat (map ev_labels tr) /\
  (forall j ej m i ei n, tr !! j = Some ej -> tr !! i = Some ei ->
     (m < length (ev_labels ej))%nat -> (n < length (ev_labels ei))%nat ->
     tc (hb1_py tr) j i \/ (j = i /\ (m < n)%nat) -> (print_pos tr j m < print_pos tr i n)%nat).
Proof. exact trace_causal_exec. Qed.

Theorem C04_trace_causal_any_start : forall md D F c0 tr cf,
  steps md D F c0 tr cf -> causal_inv c0 -> trace_causal_stmt md D F c0 tr cf.
Proof. exact trace_causal. Qed.

Theorem C04_init_causal_inv : forall p : program, causal_inv (init_config p).
Proof. exact init_causal_inv. Qed.

Theorem C04_prints_respect_causality : forall md D F c0 tr cf,
  steps md D F c0 tr cf -> causal_inv c0 ->
  labels cf = labels c0 ++ concat (map ev_labels tr) /\
  (forall i e n l, tr !! i = Some e -> ev_labels e !! n = Some l ->
     labels cf !! (length (labels c0) + print_pos tr i n)%nat = Some l) /\
  (forall pos l, labels cf !! (length (labels c0) + pos)%nat = Some l ->
     exists i e n, tr !! i = Some e /\ ev_labels e !! n = Some l /\ pos = print_pos tr i n) /\
  (forall j ej m i ei n, tr !! j = Some ej -> tr !! i = Some ei ->
     (m < length (ev_labels ej))%nat -> (n < length (ev_labels ei))%nat ->
     hb tr j i \/ (j = i /\ (m < n)%nat) -> (print_pos tr j m < print_pos tr i n)%nat).
Proof. exact prints_respect_causality. Qed.

Theorem C04_hb_is_the_checks_relation : forall md D F c0 tr cf,
  steps md D F c0 tr cf -> causal_inv c0 -> forall j i, tc (hb1_py tr) j i <-> hb tr j i.
Proof. exact hb_py_equiv. Qed.

Theorem C04_refines_sax : forall D F c self c',
  SaxRefine.Inv D c -> step Async D F c (Run self) = SStep c' ->
  exists ls, ((ls = [] /\ α c ≡ₚ α c') \/ sax_step F false (α c) ls (α c')) /\ labels c' = labels c ++ ls.
Proof. exact refines_sax01. Qed.

Theorem C04_refines_sax_run : forall D F c c', inv_steps D F c c' ->
  exists ls, sax_steps F false (α c) ls (α c') /\ labels c' = labels c ++ ls.
Proof. exact refines_sax_run. Qed.

(* the run-level result with the smallest premise: the structural part of Inv is proved inductive
   (SaxInv.ginv: ginv_init, ginv_step, ginv_Inv); what remains is the residue `tres` of the configuration
   typing at the configurations the run visits, and two decidable facts about the program *)
Theorem C04_prints_admitted_partial : forall p : program,
  linear_program p = true -> no_cids p = true ->
  (forall tr c, steps Async (p_types p) (p_funs p) (init_config p) tr c -> tres (p_types p) c) ->
  forall fuel pick, exists C',
    sax_steps (p_funs p) false (sax_init p)
      (labels (res_config (exec_run fuel pick Async (p_types p) (p_funs p) (init_config p)))) C'.
Proof. exact prints_admitted_residue. Qed.

(* ------------------------------------------------------------------ RESULTS without a premise about runs
   (proofs/SaxTyped.v).  The residue `tres` and the whole local invariant Inv follow from the invariant
   of the core fragment that C01 / C03 prove for every reachable configuration (cfg_typed + Topo +
   LinCfg + CoreCfg + ns_ok: TopoReach.inv_reachable).  What is left are conditions on the PROGRAM,
   all computable and evaluated per program by the check (`c04_premises_text`): closed (in_fragment),
   init_linear (function and initial bodies in the core
   fragment and affine, one provider per process, initial configuration a forest). *)
Theorem C04_prints_admitted : forall txt p p',
  parse_string txt = POk p -> typecheck p = Accept p' -> in_fragment p' ->
  init_linear p' ->
  forall fuel pick, exists C',
    sax_steps (p_funs p') false (sax_init p')
      (labels (res_config (exec_run fuel pick Async (p_types p') (p_funs p') (init_config p')))) C'.
Proof. exact prints_admitted_parsed. Qed.

(* the same in both polarized modes: a synchronous rendezvous is two asynchronous steps *)
Theorem C04_prints_admitted_polarized : forall md txt p p',
  is_np md = false ->
  parse_string txt = POk p -> typecheck p = Accept p' -> in_fragment p' ->
  init_linear p' ->
  forall fuel pick, exists C',
    sax_steps (p_funs p') false (sax_init p')
      (labels (res_config (exec_run fuel pick md (p_types p') (p_funs p') (init_config p')))) C'.
Proof. exact prints_admitted_parsed_md. Qed.

(* with the premises as one computable verdict on the program text *)
Theorem C04_prints_admitted_text : forall txt, c04_premises_text txt = true ->
  exists p p', parse_string txt = POk p /\ typecheck p = Accept p' /\
  forall fuel pick, exists C',
    sax_steps (p_funs p') false (sax_init p')
      (labels (res_config (exec_run fuel pick Async (p_types p') (p_funs p') (init_config p')))) C'.
Proof. exact prints_admitted_text. Qed.

(* ------------------------------------------------------------------ ... and with init_linear DERIVED from acceptance (a8:
   DeterminismAccept.init_linear_parsed; proofs/SaxAccept.v).  Premises: the text parses, the program is
   accepted and closed, and the computable condition core_src_b on the SOURCE program (no drop / split /
   droppable forward, one provider name per process, no empty case).  Nothing about p' beyond
   closedness, nothing about configurations or runs. *)
Theorem C04_prints_admitted_core : forall txt p p',
  parse_string txt = POk p -> typecheck p = Accept p' -> in_fragment p' -> core_src_b p = true ->
  forall fuel pick, exists C',
    sax_steps (p_funs p') false (sax_init p')
      (labels (res_config (exec_run fuel pick Async (p_types p') (p_funs p') (init_config p')))) C'.
Proof. exact prints_admitted_core_async. Qed.

Theorem C04_prints_admitted_polarized_core : forall md txt p p',
  is_np md = false ->
  parse_string txt = POk p -> typecheck p = Accept p' -> in_fragment p' -> core_src_b p = true ->
  forall fuel pick, exists C',
    sax_steps (p_funs p') false (sax_init p')
      (labels (res_config (exec_run fuel pick md (p_types p') (p_funs p') (init_config p')))) C'.
Proof. exact prints_admitted_core. Qed.

(* exactly these premises as one computable verdict on the text (driver `c04core`) *)
Theorem C04_prints_admitted_core_text : forall txt, c04_core_text txt = true ->
  exists p p', parse_string txt = POk p /\ typecheck p = Accept p' /\
  forall md, is_np md = false -> forall fuel pick, exists C',
    sax_steps (p_funs p') false (sax_init p')
      (labels (res_config (exec_run fuel pick md (p_types p') (p_funs p') (init_config p')))) C'.
Proof. exact prints_admitted_core_text. Qed.

(* ------------------------------------------------------------------ WEAKENING (proofs/SaxDrop.v): programs with `drop`
   (no split, one provider name per process), Async mode, as a weak simulation into spec/Sax.v WITH
   its structural rules: `drop x; k` is s_drop (the droppable forward the interpreter spawns is the
   pending request drop(x)); posting the GC request is no step; a droppable forward that receives a
   positive message, and a process that receives the GC request on its own channel, are s_gc — the
   request is passed on to every channel the dropped object uses.  Side conditions from a8's InvX. *)
Theorem C04_refines_sax_drop : forall D F teq, teq_laws D teq -> funs_typed D F teq ->
  forall c self c', InvX D F teq c -> DropCfg c -> step Async D F c (Run self) = SStep c' ->
  exists ls, ((ls = [] /\ α c ≡ₚ α c') \/ sax_step F true (α c) ls (α c')) /\ labels c' = labels c ++ ls.
Proof. exact refines_drop_step. Qed.

Theorem C04_dropcfg_step : forall D F c self c',
  nosplit_funs F -> Topo c -> DropCfg c -> step Async D F c (Run self) = SStep c' -> DropCfg c'.
Proof. exact dropcfg_step. Qed.

Theorem C04_prints_admitted_drop : forall txt p p',
  parse_string txt = POk p -> typecheck p = Accept p' -> in_fragment p' -> nosplit_program p' = true ->
  forall fuel pick, exists C',
    sax_steps (p_funs p') true (sax_init p')
      (labels (res_config (exec_run fuel pick Async (p_types p') (p_funs p') (init_config p')))) C'.
Proof. exact prints_admitted_drop. Qed.

Theorem C04_prints_admitted_drop_polarized : forall md txt p p',
  is_np md = false ->
  parse_string txt = POk p -> typecheck p = Accept p' -> in_fragment p' -> nosplit_program p' = true ->
  forall fuel pick, exists C',
    sax_steps (p_funs p') true (sax_init p')
      (labels (res_config (exec_run fuel pick md (p_types p') (p_funs p') (init_config p')))) C'.
Proof. exact prints_admitted_drop_md. Qed.

(* the first sentence of C04 for contraction-free programs (linear connectives + weakening): the labels of a
   terminating run are printed by the reference semantics, and every schedule prints the same multiset *)
Theorem C04_results_unique_admitted : forall md txt p p' pick1 f1 t1,
  is_np md = false ->
  parse_string txt = POk p -> typecheck p = Accept p' -> in_fragment p' -> nosplit_program p' = true ->
  exec_run f1 pick1 md (p_types p') (p_funs p') (init_config p') = RQuiescent t1 ->
  (exists C', sax_steps (p_funs p') true (sax_init p') (labels t1) C') /\
  (forall pick2 f2, (f1 <= f2)%nat ->
     exists t2, exec_run f2 pick2 md (p_types p') (p_funs p') (init_config p') = RQuiescent t2 /\ labels t2 ≡ₚ labels t1).
Proof. exact results_unique_admitted. Qed.

Theorem C04_prints_admitted_drop_text : forall txt, c04_drop_text txt = true ->
  exists p p', parse_string txt = POk p /\ typecheck p = Accept p' /\
  forall fuel pick, exists C',
    sax_steps (p_funs p') true (sax_init p')
      (labels (res_config (exec_run fuel pick Async (p_types p') (p_funs p') (init_config p')))) C'.
Proof. exact prints_admitted_drop_text. Qed.

Example C04_ex_drop :
  c04_drop_text RtTheorems.example_drop_text = true /\ c04_drop_text DeterminismAll.example_drop_text = true.
Proof. vm_compute. split; reflexivity. Qed.

(* ------------------------------------------------------------------ CONTRACTION (proofs/SaxSplit.v): `split`, the FWD request with two
   providers, DUP.  `<x,y> <- split b; k` is s_split (the two-provider forward the interpreter spawns is the
   pending request split(c1,c2,b)); posting the request is no step; the positive forward receiving a message, and
   a process adopting the two providers on its own channel, are s_copy — the process that now has two providers
   is read as the copies its DUP step creates, so the DUP step itself is no step.  With weakening and the
   linear rules: EVERY step of every configuration whose provider lists have length one or two. *)
Theorem C04_refines_sax_all : forall D F teq, teq_laws D teq -> funs_typed D F teq ->
  forall c self c', InvX D F teq c -> SplitCfg c -> step Async D F c (Run self) = SStep c' ->
  exists ls, ((ls = [] /\ α c ≡ₚ α c') \/ sax_step F true (α c) ls (α c')) /\ labels c' = labels c ++ ls.
Proof. exact refines_all_step. Qed.

Theorem C04_splitcfg_step : forall D F c self c',
  Topo c -> SplitCfg c -> step Async D F c (Run self) = SStep c' -> SplitCfg c'.
Proof. exact splitcfg_step. Qed.

(* ALL parsed, accepted, closed programs with one provider name per declaration (drop, split, every connective),
   both polarized modes: no premise about the annotated program beyond closedness and the shape of the declarations *)
Theorem C04_prints_admitted_all : forall md txt p p',
  is_np md = false ->
  parse_string txt = POk p -> typecheck p = Accept p' -> in_fragment p' -> single_decls p' = true ->
  forall fuel pick, exists C',
    sax_steps (p_funs p') true (sax_init p')
      (labels (res_config (exec_run fuel pick md (p_types p') (p_funs p') (init_config p')))) C'.
Proof. exact prints_admitted_all. Qed.

Theorem C04_prints_admitted_all_text : forall txt, c04_all_text txt = true ->
  exists p p', parse_string txt = POk p /\ typecheck p = Accept p' /\
  forall md, is_np md = false -> forall fuel pick, exists C',
    sax_steps (p_funs p') true (sax_init p')
      (labels (res_config (exec_run fuel pick md (p_types p') (p_funs p') (init_config p')))) C'.
Proof. exact prints_admitted_all_text. Qed.

Theorem C04_results_unique_admitted_all : forall md txt p p' pick1 f1 t1,
  is_np md = false ->
  parse_string txt = POk p -> typecheck p = Accept p' -> in_fragment p' -> single_decls p' = true ->
  exec_run f1 pick1 md (p_types p') (p_funs p') (init_config p') = RQuiescent t1 ->
  (exists C', sax_steps (p_funs p') true (sax_init p') (labels t1) C') /\
  (forall pick2 f2, (f1 <= f2)%nat ->
     exists t2, exec_run f2 pick2 md (p_types p') (p_funs p') (init_config p') = RQuiescent t2 /\ labels t2 ≡ₚ labels t1).
Proof. exact results_unique_admitted_all. Qed.

Example C04_ex_all :
  c04_all_text RtTheorems.example_split_text = true /\ c04_all_text RtTheorems.example_drop_text = true /\
  c04_all_text ex_text = true.
Proof. vm_compute. repeat split; reflexivity. Qed.

(* ------------------------------------------------------------------ TWO PROVIDER NAMES (spec/SaxInit2.v, proofs/SaxTwo.v).  `prc[a,b] : T = P` is the
   contraction of P: Sax.v's proc(c,P) next to a pending split(a,b,c), whose only step is s_copy; `sax_init2` is the
   configuration after that forced step (two copies of P, one pending split per free name; a pending split(a,b,x) if P
   is `fwd self x`), and equals Sax.sax_init when every declaration has one name.  It IS the abstraction of the
   interpreter's initial configuration (C04_alpha_init2), so `single_decls` goes away for declarations with <= 2 names. *)
Theorem C04_alpha_init2 : forall p : program, decls_le2 p = true -> α (init_config p) ≡ₚ sax_init2 p.
Proof. exact alpha_init2. Qed.

Theorem C04_sax_init2_single : forall p : program, single_decls p = true -> sax_init2 p = sax_init p.
Proof. exact sax_init2_single. Qed.

Theorem C04_prints_admitted_all2 : forall md txt p p',
  is_np md = false ->
  parse_string txt = POk p -> typecheck p = Accept p' -> in_fragment p' -> decls_le2 p' = true ->
  forall fuel pick, exists C',
    sax_steps (p_funs p') true (sax_init2 p')
      (labels (res_config (exec_run fuel pick md (p_types p') (p_funs p') (init_config p')))) C'.
Proof. exact prints_admitted_all2. Qed.

Theorem C04_prints_admitted_all2_text : forall txt, c04_all2_text txt = true ->
  exists p p', parse_string txt = POk p /\ typecheck p = Accept p' /\
  forall md, is_np md = false -> forall fuel pick, exists C',
    sax_steps (p_funs p') true (sax_init2 p')
      (labels (res_config (exec_run fuel pick md (p_types p') (p_funs p') (init_config p')))) C'.
Proof. exact prints_admitted_all2_text. Qed.

Theorem C04_results_unique_admitted_all2 : forall md txt p p' pick1 f1 t1,
  is_np md = false ->
  parse_string txt = POk p -> typecheck p = Accept p' -> in_fragment p' -> decls_le2 p' = true ->
  exec_run f1 pick1 md (p_types p') (p_funs p') (init_config p') = RQuiescent t1 ->
  (exists C', sax_steps (p_funs p') true (sax_init2 p') (labels t1) C') /\
  (forall pick2 f2, (f1 <= f2)%nat ->
     exists t2, exec_run f2 pick2 md (p_types p') (p_funs p') (init_config p') = RQuiescent t2 /\ labels t2 ≡ₚ labels t1).
Proof. exact results_unique_admitted_all2. Qed.

(* non-vacuity: two programs with a two-name declaration (outside c04_all_text); the first prints made twice *)
Example C04_ex_all2 :
  c04_all2_text example_two_text = true /\ c04_all_text example_two_text = false /\
  c04_all2_text example_two_call_text = true /\ c04_all2_text RtTheorems.example_split_text = true /\
  RtTheorems.run_text example_two_text Async (fun _ _ => 0%nat) = Some (0%nat, ["made"; "made"; "done"], true).
Proof. vm_compute. repeat split; reflexivity. Qed.

(* ------------------------------------------------------------------ NON-POLARIZED mode (proofs/SaxNP.v).  Plain programs (no forward, no drop,
   no split in any body, one provider name per process: DeterminismNP.plain_src_b on the SOURCE program): the NP run
   under any oracle IS the synchronous run under that oracle (PlainNP.plain_run_eq), so the labels of every NP run are
   printed by spec/Sax.v from sax_init p'.  plain_src_b implies single_decls p' (plain_src_single_decls). *)
Theorem C04_prints_admitted_np_plain : forall txt p p',
  parse_string txt = POk p -> typecheck p = Accept p' -> in_fragment p' -> plain_src_b p = true ->
  forall fuel pick, exists C',
    sax_steps (p_funs p') true (sax_init p')
      (labels (res_config (exec_run fuel pick NP (p_types p') (p_funs p') (init_config p')))) C'.
Proof. exact prints_admitted_np_plain. Qed.

Theorem C04_results_unique_admitted_np_plain : forall txt p p' pick1 f1 t1,
  parse_string txt = POk p -> typecheck p = Accept p' -> in_fragment p' -> plain_src_b p = true ->
  exec_run f1 pick1 NP (p_types p') (p_funs p') (init_config p') = RQuiescent t1 ->
  (exists C', sax_steps (p_funs p') true (sax_init p') (labels t1) C') /\
  (forall pick2 f2, (f1 <= f2)%nat ->
     exists t2, exec_run f2 pick2 NP (p_types p') (p_funs p') (init_config p') = RQuiescent t2 /\ labels t2 ≡ₚ labels t1).
Proof. exact results_unique_admitted_np_plain. Qed.

(* the premises as one computable verdict on the text (driver `c04np`); ALL THREE modes *)
Theorem C04_prints_admitted_np_plain_text : forall txt, c04_np_plain_text txt = true ->
  exists p p', parse_string txt = POk p /\ typecheck p = Accept p' /\
  forall md fuel pick, exists C',
    sax_steps (p_funs p') true (sax_init p')
      (labels (res_config (exec_run fuel pick md (p_types p') (p_funs p') (init_config p')))) C'.
Proof. exact prints_admitted_np_plain_text. Qed.

Example C04_ex_np_plain : c04_np_plain_text RtTheorems.example_text = true.
Proof. vm_compute. reflexivity. Qed.

(* NP beyond plain programs: FORWARDS (fwf_src_b on the SOURCE: no drop, no split in any body, one provider name per
   process; forwards allowed).  In NP a forward offers its providers on the control channel of its client channel and
   the provider of that channel adopts them (Control f t): this IS the rule id of spec/Sax.v (provider renaming), without
   a FWD message in between (C04_refines_sax_np_control).  Every other NP step of the class is one asynchronous step
   (Run) or two (Rendezvous), read by C04_refines_sax_all. *)
Theorem C04_refines_sax_np_control : forall D F teq c f t c',
  InvX D F teq c -> bufs_empty c -> FwCfg c -> step NP D F c (Control f t) = SStep c' ->
  sax_step F true (α c) [] (α c') /\ labels c' = labels c.
Proof. exact refines_control. Qed.

Theorem C04_refines_sax_np : forall D F teq, teq_laws D teq -> funs_typed D F teq -> TopoStep.funs_aff F -> nofd_funs F ->
  forall c ch c', InvX D F teq c -> bufs_empty c -> FwCfg c -> step NP D F c ch = SStep c' ->
  exists ls, sax_steps F true (α c) ls (α c') /\ labels c' = labels c ++ ls.
Proof. exact refines_np_step. Qed.

Theorem C04_fwcfg_step_np : forall D F, fwf_funs F ->
  forall c ch c', FwCfg c -> bufs_empty c -> step NP D F c ch = SStep c' -> FwCfg c'.
Proof. exact fw_step_np. Qed.

Theorem C04_prints_admitted_np_fwd : forall txt p p',
  parse_string txt = POk p -> typecheck p = Accept p' -> in_fragment p' -> fwf_src_b p = true ->
  forall fuel pick, exists C',
    sax_steps (p_funs p') true (sax_init p')
      (labels (res_config (exec_run fuel pick NP (p_types p') (p_funs p') (init_config p')))) C'.
Proof. exact prints_admitted_np_fwd. Qed.

Theorem C04_results_unique_admitted_np_fwd : forall txt p p' pick1 f1 t1,
  parse_string txt = POk p -> typecheck p = Accept p' -> in_fragment p' -> fwf_src_b p = true ->
  exec_run f1 pick1 NP (p_types p') (p_funs p') (init_config p') = RQuiescent t1 ->
  (exists C', sax_steps (p_funs p') true (sax_init p') (labels t1) C') /\
  (forall pick2 f2, (f1 <= f2)%nat ->
     exists t2, exec_run f2 pick2 NP (p_types p') (p_funs p') (init_config p') = RQuiescent t2 /\ labels t2 ≡ₚ labels t1).
Proof. exact results_unique_admitted_np_fwd. Qed.

(* one computable verdict on the text (driver `c04npfwd`); ALL THREE modes *)
Theorem C04_prints_admitted_np_fwd_text : forall txt, c04_np_fwd_text txt = true ->
  exists p p', parse_string txt = POk p /\ typecheck p = Accept p' /\
  forall md fuel pick, exists C',
    sax_steps (p_funs p') true (sax_init p')
      (labels (res_config (exec_run fuel pick md (p_types p') (p_funs p') (init_config p')))) C'.
Proof. exact prints_admitted_np_fwd_text. Qed.

(* non-vacuity: the C04 example program has two forwards (and is not plain) *)
Example C04_ex_np_fwd : c04_np_fwd_text ex_text = true /\ c04_np_plain_text ex_text = false.
Proof. vm_compute. split; reflexivity. Qed.

(* the contraction-free class (cfree_src_b: forwards AND drop): full statement SaxNP.prints_admitted_np_cfree_stmt; proved
   with the extra premise "no drop in any body" (_partial).  Building blocks for the rest: in NP `drop x; k` is s_drop whose
   pending request stays (C04_refines_np_drop), and requests that mention only channels of the configuration do not
   disturb a step (C04_sax_step_frame); missing: that the channel of such a request keeps occurring in α c. *)
Theorem C04_prints_admitted_np_cfree_partial : forall txt p p',
  parse_string txt = POk p -> typecheck p = Accept p' -> in_fragment p' -> cfree_src_b p = true -> nodrop_src_b p = true ->
  forall fuel pick, exists C',
    sax_steps (p_funs p') true (sax_init p')
      (labels (res_config (exec_run fuel pick NP (p_types p') (p_funs p') (init_config p')))) C'.
Proof. exact prints_admitted_np_cfree_partial. Qed.

Theorem C04_refines_np_drop : forall D F teq Δ c p n0 a x k nx c',
  cfg_typed D F teq Δ c -> procs c !! p = Some (Proc [n0] (FDrop x k) nx) -> chan n0 = Some a ->
  step NP D F c (Run p) = SStep c' ->
  exists b, chan x = Some b /\ sax_step F true (α c) [] (α c' ++ [SDrop b]) /\ labels c' = labels c.
Proof. exact refines_np_drop. Qed.

Theorem C04_sax_step_frame : forall F str C ls C' G,
  (forall z, z ∈ cfg_cids G -> z ∈ cfg_cids C) ->
  sax_step F str C ls C' -> sax_step F str (C ++ G) ls (C' ++ G).
Proof. exact sax_step_frame. Qed.

Theorem C04_tres_from_typing : forall D F teq, teq_laws D teq -> funs_typed D F teq ->
  forall Δ c, cfg_typed D F teq Δ c -> Topo c -> tres D c.
Proof. exact tres_typed_topo. Qed.

Theorem C04_core_invariant_gives_Inv : forall D F teq, teq_laws D teq -> funs_typed D F teq ->
  forall c, TopoStep.Inv D F teq c -> SaxRefine.Inv D c.
Proof. exact inv_sax_inv. Qed.

Theorem C04_refines_sax_core : forall D F teq, teq_laws D teq -> funs_typed D F teq -> core_funs F -> funs_aff F ->
  forall md c0 tr c, is_np md = false -> TopoStep.Inv D F teq c0 -> (md = Sync -> bufs_empty c0) ->
  steps md D F c0 tr c ->
  exists ls, sax_steps F false (α c0) ls (α c) /\ labels c = labels c0 ++ ls.
Proof. exact refines_sax_core_md. Qed.

(* SaxRefine.linear_program lies inside the core fragment of C03 (its `core_funs` and `CoreCfg` parts) *)
Theorem C04_linear_program_core : forall p, linear_program p = true -> core_funs (p_funs p) /\ CoreCfg (init_config p).
Proof. exact linear_program_core. Qed.

Theorem C04_structural_invariant_init : forall p,
  linear_program p = true -> no_cids p = true -> ginv (U0 p) (init_config p).
Proof. exact ginv_init. Qed.

Theorem C04_structural_invariant_step : forall U D F c self c',
  ginv U c -> tres D c -> funs_ok F -> step Async D F c (Run self) = SStep c' ->
  exists U' : list nat -> Prop, (forall x, U x -> U' x) /\ ginv U' c'.
Proof. exact ginv_step. Qed.

Theorem C04_structural_invariant_gives_Inv : forall U D c, ginv U c -> tres D c -> SaxRefine.Inv D c.
Proof. exact ginv_Inv. Qed.

Theorem C04_prints_admitted_if_inv_preserved : forall D F,
  (forall c ch c', SaxRefine.Inv D c -> step Async D F c ch = SStep c' -> SaxRefine.Inv D c') ->
  forall (p : program) fuel pick, SaxRefine.Inv D (init_config p) ->
  exists C', sax_steps F false (sax_init p)
               (labels (res_config (exec_run fuel pick Async D F (init_config p)))) C'.
Proof. exact prints_admitted_partial. Qed.

Theorem C04_alpha_init : forall p : program,
  (forall q pr, procs (init_config p) !! q = Some pr -> exists n, pr_provs pr = [n]) ->
  α (init_config p) ≡ₚ sax_init p.
Proof. exact alpha_init. Qed.

Theorem C04_prints_admitted_checked : forall fuel pick D F c r,
  exec_checked fuel pick D F c = Some r ->
  exec_run fuel pick Async D F c = r /\
  exists ls, sax_steps F false (α c) ls (α (res_config r)) /\ labels (res_config r) = labels c ++ ls.
Proof. exact prints_admitted_checked. Qed.

Theorem C04_prints_admitted_checked_init : forall fuel pick (p : program) r,
  single_cfg_b (init_config p) = true ->
  exec_checked fuel pick (p_types p) (p_funs p) (init_config p) = Some r ->
  exec_run fuel pick Async (p_types p) (p_funs p) (init_config p) = r /\
  sax_steps (p_funs p) false (sax_init p) (labels (res_config r)) (α (res_config r)).
Proof. exact prints_admitted_checked_init. Qed.

Theorem C04_inv_checker_sound : forall D c, inv_b D c = true -> SaxRefine.Inv D c.
Proof. exact inv_b_sound. Qed.

(* non-vacuity, on a concrete accepted program (text in proofs/C04Examples.v), by vm_compute *)
Example C04_ex_accepted_linear : exists p', ex_prog = Some p' /\ linear_program p' = true.
Proof. exact ex_accepted_linear. Qed.
Example C04_ex_premises : c04_premises_text ex_text = true.
Proof. vm_compute. reflexivity. Qed.
Example C04_ex_core : c04_core_text ex_text = true.
Proof. vm_compute. reflexivity. Qed.
Example C04_ex_no_cids : match ex_prog with Some p' => no_cids p' | None => false end = true.
Proof. vm_compute. reflexivity. Qed.
Example C04_ex_checked_run : checked_labels pick0 = Some ["echoed"; "done"; "succ"; "zero"].
Proof. vm_compute. reflexivity. Qed.
Example C04_ex_checked_run_other_schedule : checked_labels pick_last = Some ["echoed"; "done"; "succ"; "zero"].
Proof. vm_compute. reflexivity. Qed.
Example C04_ex_sax_admits : exists p' C', ex_prog = Some p' /\
  sax_steps (p_funs p') false (sax_init p') ["echoed"; "done"; "succ"; "zero"] C'.
Proof. exact ex_sax_admits. Qed.
Example C04_ex_trace_shape :
  length ex_trace = 37%nat /\
  length (filter (fun e => is_some (ev_recv e)) ex_trace) = 11%nat /\
  forallb (fun '(i, e) => recv_matched ex_trace i e) (imap (fun i e => (i, e)) ex_trace) = true /\
  concat (map ev_labels ex_trace) = ["echoed"; "done"; "succ"; "zero"].
Proof. vm_compute. repeat split; reflexivity. Qed.
Example C04_ex_hb_print_edge : hb ex_trace 21 24.
Proof. exact ex_hb_print_edge. Qed.

Print Assumptions C04_trace_causal.
Print Assumptions C04_trace_causal_any_start.
Print Assumptions C04_init_causal_inv.
Print Assumptions C04_prints_respect_causality.
Print Assumptions C04_hb_is_the_checks_relation.
Print Assumptions C04_refines_sax.
Print Assumptions C04_refines_sax_run.
Print Assumptions C04_prints_admitted_partial.
Print Assumptions C04_prints_admitted.
Print Assumptions C04_prints_admitted_polarized.
Print Assumptions C04_prints_admitted_text.
Print Assumptions C04_prints_admitted_core.
Print Assumptions C04_prints_admitted_polarized_core.
Print Assumptions C04_prints_admitted_core_text.
Print Assumptions C04_ex_core.
Print Assumptions C04_refines_sax_drop.
Print Assumptions C04_dropcfg_step.
Print Assumptions C04_prints_admitted_drop.
Print Assumptions C04_prints_admitted_drop_polarized.
Print Assumptions C04_results_unique_admitted.
Print Assumptions C04_prints_admitted_drop_text.
Print Assumptions C04_ex_drop.
Print Assumptions C04_refines_sax_all.
Print Assumptions C04_splitcfg_step.
Print Assumptions C04_prints_admitted_all.
Print Assumptions C04_prints_admitted_all_text.
Print Assumptions C04_results_unique_admitted_all.
Print Assumptions C04_ex_all.
Print Assumptions C04_alpha_init2.
Print Assumptions C04_sax_init2_single.
Print Assumptions C04_prints_admitted_all2.
Print Assumptions C04_prints_admitted_all2_text.
Print Assumptions C04_results_unique_admitted_all2.
Print Assumptions C04_ex_all2.
Print Assumptions C04_prints_admitted_np_plain.
Print Assumptions C04_results_unique_admitted_np_plain.
Print Assumptions C04_prints_admitted_np_plain_text.
Print Assumptions C04_ex_np_plain.
Print Assumptions C04_refines_sax_np_control.
Print Assumptions C04_refines_sax_np.
Print Assumptions C04_fwcfg_step_np.
Print Assumptions C04_prints_admitted_np_fwd.
Print Assumptions C04_results_unique_admitted_np_fwd.
Print Assumptions C04_prints_admitted_np_fwd_text.
Print Assumptions C04_ex_np_fwd.
Print Assumptions C04_prints_admitted_np_cfree_partial.
Print Assumptions C04_refines_np_drop.
Print Assumptions C04_sax_step_frame.
Print Assumptions C04_tres_from_typing.
Print Assumptions C04_core_invariant_gives_Inv.
Print Assumptions C04_refines_sax_core.
Print Assumptions C04_linear_program_core.
Print Assumptions C04_ex_premises.
Print Assumptions C04_structural_invariant_init.
Print Assumptions C04_structural_invariant_step.
Print Assumptions C04_structural_invariant_gives_Inv.
Print Assumptions C04_prints_admitted_if_inv_preserved.
Print Assumptions C04_prints_admitted_checked.
Print Assumptions C04_prints_admitted_checked_init.
Print Assumptions C04_alpha_init.
Print Assumptions C04_inv_checker_sound.
Print Assumptions C04_ex_sax_admits.
Print Assumptions C04_ex_hb_print_edge.

(* The substitution / copy code the run-time steps are made of, TRANSLATED from the current
   process/form.go on this run (gen/FormOps.v; see props/C14.v for the full list): what the code says
   now is the model the theorems above are about. *)
Require Grits.Subst Grits.FormIR Grits.gen.FormOps Grits.proofs.FormOpsAgree.
Theorem C04_formops_subst_agrees : forall old new f, FormIR.ir_subst FormOps.table old new f = Subst.subst old new f.
Proof. exact FormOpsAgree.formops_subst_agrees. Qed.
Theorem C04_formops_copy_wf : FormIR.copy_table_ok FormOps.table = true.
Proof. exact FormOpsAgree.formops_copy_wf. Qed.
Theorem C04_formops_copy_agrees : forall f, FormIR.ir_copy FormOps.table f = FormIR.copy_norm f.
Proof. exact FormOpsAgree.formops_copy_agrees. Qed.
Print Assumptions C04_formops_subst_agrees.
Print Assumptions C04_formops_copy_wf.
Print Assumptions C04_formops_copy_agrees.
