(* props/C16.v — mode inference is deterministic, complete and annotation-stable.
   All statements are for ALL environments / types (no bound on number or size), about the
   Gallina model of inferModality / assignUnsetModalities / SetModalityTypeDef /
   AddMissingModalities (Infer.v) and of the checks (WF.v). *)
Require Import Grits.Base Grits.ModeDefs Grits.Modes Grits.STypes Grits.Infer Grits.WF.
Require Import Grits.spec.WFSpec Grits.spec.ModeSpec Grits.proofs.WFProofs Grits.proofs.InferProofs Grits.proofs.InferCorrect.
Require Import Coq.Sorting.Permutation.

(* never hangs, never panics: the fuel Infer.v hands in is enough *)
Theorem infer_never_hangs : forall D t s, infer (infer_fuel D t) D t [] <> Hang s.
Proof. exact infer_never_hangs_proof. Qed.

Theorem infer_never_panics : forall D t s, infer (infer_fuel D t) D t [] <> Panic s.
Proof. exact infer_never_panics_proof. Qed.

Theorem set_modality_total : forall D0, exists D, set_modality_typedefs D0 = Ok D.
Proof. exact set_modality_total_proof. Qed.

(* deterministic: inference is a function of (fuel, environment, type, used set) — and of nothing else *)
Theorem infer_deterministic : forall f D t u r1 r2, infer f D t u = r1 -> infer f D t u = r2 -> r1 = r2.
Proof. exact infer_deterministic_proof. Qed.

(* complete: after SetModalityTypeDef and successful checks no definition and no node is left
   without a mode; same for annotation types after AddMissingModalities *)
Theorem infer_total : forall D0 D,
  set_modality_typedefs D0 = Ok D -> sanity_typedefs D = Ok None ->
  forall d, In d D -> td_mode d <> Unset /\ no_unset (td_body d).
Proof. exact infer_total_proof. Qed.

Theorem infer_total_ann : forall D t t',
  add_missing D t = Ok t' -> sanity_types D [t'] = None -> no_unset t'.
Proof. exact infer_total_ann_proof. Qed.

(* ... and already before the checks, provided the two modes of every shift are written (the
   grammar has no other shifts) *)
Theorem set_modality_fills : forall D0 D,
  (forall d, In d D0 -> shifts_set (td_body d)) -> set_modality_typedefs D0 = Ok D ->
  forall d, In d D -> td_mode d <> Unset /\ no_unset (td_body d).
Proof. exact set_modality_fills_proof. Qed.

Theorem assign_idempotent : forall D t cur, assign D cur (assign D cur t) = assign D cur t.
Proof. exact assign_idempotent_proof. Qed.

(* declaration order is irrelevant: permuting the definitions permutes the result, so the two
   results are the same finite map from names to (mode, body) *)
Theorem infer_perm : forall D D', Permutation D D' -> NoDup (names D) ->
  exists R R', set_modality_typedefs D = Ok R /\ set_modality_typedefs D' = Ok R' /\
               Permutation R R' /\ (forall x, tlookup R x = tlookup R' x).
Proof. exact infer_perm_proof. Qed.

(* annotation-stable: writing the recorded mode at the head of every unannotated definition of an
   accepted environment gives exactly the same environment ... *)
Theorem infer_annotation_stable : forall (S : list src_def) R,
  set_modality_typedefs (conv S) = Ok R -> sanity_typedefs R = Ok None ->
  set_modality_typedefs (conv (annotate R S)) = Ok R.
Proof. exact infer_annotation_stable_proof. Qed.

(* ... and the same for an annotation type of let / prc / assuming / a typed cut *)
Theorem ann_annotation_stable : forall D it t',
  add_missing D (to_sty Unset it) = Ok t' -> check_wf D t' = None ->
  add_missing D (to_sty (mode_of t') it) = Ok t'.
Proof. exact ann_annotation_stable_proof. Qed.

(* the explicit annotation in the text: `mode_short m` is read back as m by StringToMode and the
   parser converts `m T` to to_sty m T — so `annotate` is what re-writing the source does *)
Theorem annotation_word_roundtrip : forall m t, proper m = true ->
  mode_of_string (mode_short m) = m /\ convert (Some (mode_short m)) t = to_sty m t.
Proof. exact annotation_word_roundtrip_proof. Qed.

(* correct: the mode recorded for every definition is its declarative mode (spec/ModeSpec.v): the
   mode a component of its body fixes, replicable exactly when no component fixes any; same for
   annotation types *)
Theorem infer_correct : forall D0 R, set_modality_typedefs D0 = Ok R ->
  Forall2 (fun d0 d => td_name d = td_name d0 /\ HasMode D0 (td_body d0) (td_mode d)) D0 R.
Proof. exact infer_correct_result_proof. Qed.

Theorem infer_correct_ann : forall D t t',
  add_missing D t = Ok t' -> exists m, HasMode D t m /\ t' = assign D m t.
Proof. exact infer_correct_ann_proof. Qed.

(* completeness of the depth-first search under its used-labels cut-off *)
Theorem infer_complete : forall D t, infer_mode D t = Unset -> forall k, ~ Fixes D t k.
Proof. exact infer_complete_proof. Qed.

Theorem infer_hypotheses_satisfiable :
  set_modality_typedefs (conv ex_src) = Ok ex_res /\ sanity_typedefs ex_res = Ok None.
Proof. exact ex_src_hyps. Qed.

Print Assumptions infer_never_hangs.
Print Assumptions infer_never_panics.
Print Assumptions set_modality_total.
Print Assumptions infer_deterministic.
Print Assumptions infer_total.
Print Assumptions infer_total_ann.
Print Assumptions set_modality_fills.
Print Assumptions assign_idempotent.
Print Assumptions infer_perm.
Print Assumptions infer_annotation_stable.
Print Assumptions ann_annotation_stable.
Print Assumptions annotation_word_roundtrip.
Print Assumptions infer_correct.
Print Assumptions infer_correct_ann.
Print Assumptions infer_complete.
Print Assumptions infer_hypotheses_satisfiable.
