(* C07 — the typing verdict matches the declarative session type system (spec/Typing.v).
   `teq` is the type-equality relation of the declarative system; the hypotheses on it are the
   statements of C08 (EqualType decides it on well-formed types over an accepted environment). *)
Require Import Grits.Base Grits.STypes Grits.Forms Grits.TcDeps Grits.Tc Grits.TcTop Grits.spec.Typing
               Grits.proofs.TcLemmas Grits.proofs.TypingSound Grits.proofs.TypingSoundTop
               Grits.proofs.TypingComplete Grits.proofs.TypingCompleteTop Grits.proofs.TypingVerdict.

Theorem C07_unfold_spec : forall D t h, unfold D t = Ok (Some h) <-> head D t h.
Proof. exact unfold_spec. Qed.

Theorem C07_sound : forall teq : tenv -> sty -> sty -> Prop,
  (forall D, sanity_typedefs D = Ok true -> forall s t, check_wf D s = true -> check_wf D t = true ->
     equal_type D s t = Ok true -> teq D s t) ->
  forall p p', typecheck p = Accept p' -> ProgOK teq p.
Proof. exact tc_sound. Qed.

Theorem C07_complete : forall teq : tenv -> sty -> sty -> Prop,
  (forall D, sanity_typedefs D = Ok true -> forall s t, check_wf D s = true -> check_wf D t = true ->
     teq D s t -> equal_type D s t = Ok true) ->
  forall p, ProgOK teq p -> exists p', typecheck p = Accept p'.
Proof. exact tc_complete. Qed.

Theorem C07_verdict : forall teq, teq_decided teq -> forall p, accepts p <-> ProgOK teq p.
Proof. exact tc_verdict. Qed.

Theorem C07_verdict_alg : forall p, accepts p <-> ProgOK teq_alg p.
Proof. exact tc_verdict_alg. Qed.

Theorem C07_well_typed_not_rejected : forall teq, teq_decided teq -> forall p, ProgOK teq p ->
  typecheck p <> Reject /\ (forall w, typecheck p <> RejectInternal w) /\ (forall w, typecheck p <> Diverge w).
Proof. exact well_typed_not_rejected. Qed.

Print Assumptions C07_unfold_spec.
Print Assumptions C07_sound.
Print Assumptions C07_complete.
Print Assumptions C07_verdict.
Print Assumptions C07_verdict_alg.
Print Assumptions C07_well_typed_not_rejected.
