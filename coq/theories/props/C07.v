(* C07 — the typing verdict matches the declarative session type system (spec/Typing.v).
   `teq` is the type-equality relation of the declarative system; the hypotheses on it are the
   statements of C08 (EqualType decides it on well-formed types over an accepted environment). *)
Require Import Grits.Base Grits.STypes Grits.Forms Grits.TcDeps Grits.Tc Grits.TcTop Grits.spec.Typing
               Grits.proofs.TcLemmas Grits.proofs.TypingSound Grits.proofs.TypingSoundTop
               Grits.proofs.TypingComplete Grits.proofs.TypingCompleteTop Grits.proofs.TypingVerdict
               Grits.spec.SynOk Grits.proofs.TypingBisim Grits.proofs.Acyclic
               Grits.proofs.ParseSynOk Grits.proofs.ParsedVerdict.

Theorem C07_unfold_spec : forall D t h, unfold D t = Ok (Some h) <-> head D t h.
Proof. exact unfold_spec. Qed.

Theorem C07_sound : forall teq : tenv -> sty -> sty -> Prop,
  (forall D, sanity_typedefs D = Ok true -> forall s t, check_wf D s = true -> check_wf D t = true ->
     equal_type D s t = Ok true -> teq D s t) ->
  forall p p', typecheck p = Accept p' -> ProgOK teq p.
Proof. exact tc_sound. Qed.

Theorem C07_complete : forall teq : tenv -> sty -> sty -> Prop,
  (forall D, sanity_typedefs D = Ok true -> forall s t, check_wf D s = true -> check_wf D t = true ->
     teq D s t -> equal_type D s t = Ok true) ->
  forall p, ProgOK teq p -> exists p', typecheck p = Accept p'.
Proof. exact tc_complete. Qed.

Theorem C07_verdict : forall teq, teq_decided teq -> forall p, accepts p <-> ProgOK teq p.
Proof. exact tc_verdict. Qed.

Theorem C07_verdict_alg : forall p, accepts p <-> ProgOK teq_alg p.
Proof. exact tc_verdict_alg. Qed.

Theorem C07_well_typed_not_rejected : forall teq, teq_decided teq -> forall p, ProgOK teq p ->
  typecheck p <> Reject /\ (forall w, typecheck p <> RejectInternal w) /\ (forall w, typecheck p <> Diverge w).
Proof. exact well_typed_not_rejected. Qed.

(* ---- closed with C08: type agreement = bisimilarity of the infinite unfoldings (spec/TypEq.v).
   Premise: every type occurring in the program is syntactically what the parser produces
   (spec/SynOk.prog_syn_ok, a boolean; evaluated by the model driver on every program of the check). *)
Theorem C07_verdict_bisim : forall p, prog_syn_ok p = true -> (accepts p <-> ProgOK teq_bisim p).
Proof. exact tc_verdict_bisim. Qed.

Theorem C07_sound_bisim : forall p p', prog_syn_ok p = true -> typecheck p = Accept p' -> ProgOK teq_bisim p.
Proof. exact tc_sound_bisim. Qed.

Theorem C07_complete_bisim : forall p, prog_syn_ok p = true -> ProgOK teq_bisim p -> exists p', typecheck p = Accept p'.
Proof. exact tc_complete_bisim. Qed.

Theorem C07_well_typed_not_rejected_bisim : forall p, prog_syn_ok p = true -> ProgOK teq_bisim p ->
  typecheck p <> Reject /\ (forall w, typecheck p <> RejectInternal w) /\ (forall w, typecheck p <> Diverge w).
Proof. exact well_typed_not_rejected_bisim. Qed.

(* ---- the premise holds of every program the parser returns (proofs/ParseSynOk.v: LABEL lexemes are
   identifier-shaped, the 75 semantic actions and expandProcesses keep every type syn_ok), so for
   parsed programs the bisimilarity instance is closed: no premise left *)
Theorem C07_parse_syn_ok : forall s p, Expand.parse_string s = Expand.POk p -> prog_syn_ok p = true.
Proof. exact parse_syn_ok. Qed.

Theorem C07_verdict_bisim_parsed : forall s p, Expand.parse_string s = Expand.POk p -> (accepts p <-> ProgOK teq_bisim p).
Proof. exact verdict_bisim_parsed. Qed.

Theorem C07_sound_bisim_parsed : forall s p p', Expand.parse_string s = Expand.POk p -> typecheck p = Accept p' -> ProgOK teq_bisim p.
Proof. exact sound_bisim_parsed. Qed.

Theorem C07_complete_bisim_parsed : forall s p, Expand.parse_string s = Expand.POk p -> ProgOK teq_bisim p -> exists p', typecheck p = Accept p'.
Proof. exact complete_bisim_parsed. Qed.

Theorem C07_well_typed_not_rejected_bisim_parsed : forall s p, Expand.parse_string s = Expand.POk p -> ProgOK teq_bisim p ->
  typecheck p <> Reject /\ (forall w, typecheck p <> RejectInternal w) /\ (forall w, typecheck p <> Diverge w).
Proof. exact well_typed_not_rejected_bisim_parsed. Qed.

(* the acyclicity condition of ProgOKe (stated with the marking iteration) means: the "uses" relation
   among the process declarations is well founded *)
Theorem C07_acyclic_spec : forall ps, NoDup (all_providers ps) -> (deps_acyclic ps = true <-> ProcsGrounded ps).
Proof. exact procs_grounded_iff. Qed.

Print Assumptions C07_parse_syn_ok.
Print Assumptions C07_verdict_bisim_parsed.
Print Assumptions C07_sound_bisim_parsed.
Print Assumptions C07_complete_bisim_parsed.
Print Assumptions C07_well_typed_not_rejected_bisim_parsed.
Print Assumptions C07_acyclic_spec.
Print Assumptions C07_verdict_bisim.
Print Assumptions C07_sound_bisim.
Print Assumptions C07_complete_bisim.
Print Assumptions C07_well_typed_not_rejected_bisim.
Print Assumptions C07_unfold_spec.
Print Assumptions C07_sound.
Print Assumptions C07_complete.
Print Assumptions C07_verdict.
Print Assumptions C07_verdict_alg.
Print Assumptions C07_well_typed_not_rejected.
