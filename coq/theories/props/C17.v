(* C17 — the four modes form the adjoint-logic preorder with monotone structural rules.
   Every statement is about down_c / up_c / weak_c / contr_c / spelling_tbl, i.e. the graphs
   obtained by EXECUTING types/modality.go on its whole finite domain (gen/ModeTables.v is
   regenerated from /repo on every run).  The domain is finite (4 modes): the proofs are case
   analyses closed by computation and are exhaustive; the bound is `proper m = true`. *)
Require Import Grits.Base Grits.ModeDefs Grits.Modes Grits.gen.ModeTables Grits.C17Defs Grits.GenModeChecks.

Ltac four m := destruct m; try discriminate.

Theorem C17_dump_total : law_total = true.
Proof. vm_compute. reflexivity. Qed.

Theorem C17_down_refl : forall m, proper m = true -> down_c m m = true.
Proof. intros m H; four m; vm_compute; reflexivity. Qed.

Theorem C17_down_trans : forall m k j, proper m = true -> proper k = true -> proper j = true ->
  down_c m k = true -> down_c k j = true -> down_c m j = true.
Proof. intros m k j Hm Hk Hj; four m; four k; four j; vm_compute; intros; congruence. Qed.

Theorem C17_down_antisym : forall m k, proper m = true -> proper k = true ->
  down_c m k = true -> down_c k m = true -> m = k.
Proof. intros m k Hm Hk; four m; four k; vm_compute; intros; congruence. Qed.

Theorem C17_rep_top : forall m, proper m = true -> down_c Rep m = true.
Proof. intros m H; four m; vm_compute; reflexivity. Qed.

Theorem C17_lin_bottom : forall m, proper m = true -> down_c m Lin = true.
Proof. intros m H; four m; vm_compute; reflexivity. Qed.

Theorem C17_aff_mul_incomparable : down_c Aff Mul = false /\ down_c Mul Aff = false.
Proof. vm_compute. split; reflexivity. Qed.

Theorem C17_up_is_converse : forall m k, proper m = true -> proper k = true -> up_c m k = down_c k m.
Proof. intros m k Hm Hk; four m; four k; vm_compute; reflexivity. Qed.

(* sigma(k) is a subset of sigma(m) whenever m >= k *)
Theorem C17_weak_monotone : forall m k, proper m = true -> proper k = true ->
  down_c m k = true -> weak_c k = true -> weak_c m = true.
Proof. intros m k Hm Hk; four m; four k; vm_compute; intros; congruence. Qed.

Theorem C17_contr_monotone : forall m k, proper m = true -> proper k = true ->
  down_c m k = true -> contr_c k = true -> contr_c m = true.
Proof. intros m k Hm Hk; four m; four k; vm_compute; intros; congruence. Qed.

(* the structural rules are the documented ones: rep {W,C}, aff {W}, mul {C}, lin {} *)
Theorem C17_structural_rules : law_structural = true.
Proof. vm_compute. reflexivity. Qed.

Theorem C17_equals_is_identity : forall m k, proper m = true -> proper k = true ->
  equals_c m k = mode_same m k.
Proof. intros m k Hm Hk; four m; four k; vm_compute; reflexivity. Qed.

(* every documented spelling (and its case variants) denotes its mode; the first component of a
   row is the spelling, the second the documented mode, the third what StringToMode returned *)
Theorem C17_spellings : forall s want got, In (s, want, got) spelling_tbl -> got = want.
Proof.
  assert (H : forallb (fun '(_, want, got) => mode_same want got) spelling_tbl = true) by (vm_compute; reflexivity).
  intros s want got Hin. rewrite forallb_forall in H. specialize (H _ Hin). cbn in H.
  destruct want, got; cbn in H; try discriminate; try reflexivity.
  apply String.eqb_eq in H. congruence.
Qed.

Theorem C17_nonspellings_invalid : law_nonspellings = true.
Proof. vm_compute. reflexivity. Qed.

(* non-vacuity: the documented spellings are all there (12 spellings, 40 case variants) *)
Example C17_spellings_nonempty : length spelling_tbl = 40 /\ In ("LINEAR", Lin, Lin) spelling_tbl.
Proof. split; [vm_compute; reflexivity | vm_compute; tauto]. Qed.

(* the hand-written Modes.v used by the rest of the development is the code's behaviour *)
Theorem C17_tables_agree : tables_agree_b = true.
Proof. exact tables_agree. Qed.

Print Assumptions C17_dump_total.
Print Assumptions C17_down_refl.
Print Assumptions C17_down_trans.
Print Assumptions C17_down_antisym.
Print Assumptions C17_rep_top.
Print Assumptions C17_lin_bottom.
Print Assumptions C17_aff_mul_incomparable.
Print Assumptions C17_up_is_converse.
Print Assumptions C17_weak_monotone.
Print Assumptions C17_contr_monotone.
Print Assumptions C17_structural_rules.
Print Assumptions C17_equals_is_identity.
Print Assumptions C17_spellings.
Print Assumptions C17_nonspellings_invalid.
Print Assumptions C17_tables_agree.
