(* C15 — placeholder while the proofs are being written (examples only) *)
Require Import Grits.Base Grits.ModeDefs Grits.Modes Grits.STypes Grits.Print.
Example c15_smoke : print_type (TTensor (TTensor (TUnit Rep) (TUnit Rep) Rep) (TUnit Rep) Rep) = "(1 * 1) * 1".
Proof. vm_compute. reflexivity. Qed.
Print Assumptions c15_smoke.
