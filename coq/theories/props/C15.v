(* C15 — printed types are unambiguous: print then parse is the identity.
   print_type is the model of SessionType.String() (compared byte for byte with Go on every run);
   lex_ty / rd_type: the reference reader of spec/TypeReader.v (its agreement with the LALR parser
   on printed types is validated on every run by feeding Go's String() output back through the
   real parser).  String() does not print the modes of non-shift nodes: `norm m t` is the
   representative of t that carries the pushed-down mode everywhere, `uniform m t` says t is
   already that representative (what checkTypeModalities guarantees). *)
Require Import Grits.Base Grits.ModeDefs Grits.Modes Grits.STypes Grits.Print Grits.EqualWF.
Require Import Grits.spec.TypeReader Grits.proofs.ReaderProofs Grits.proofs.LexProofs Grits.proofs.PrintProofs.

Theorem parse_print_type : forall t m,
  uniform m t = true -> syn_ok t = true -> modes_wf t = true -> rd_type m (lex_ty (print_type t)) = Some t.
Proof. exact LexProofs.parse_print_type. Qed.

(* two types that print alike differ at most in the modes of non-shift nodes *)
Theorem print_injective : forall s t m,
  syn_ok s = true -> modes_wf s = true -> syn_ok t = true -> modes_wf t = true ->
  print_type s = print_type t -> norm m s = norm m t.
Proof. exact PrintProofs.print_injective. Qed.

(* under the same head mode, two different mode-uniform types never print identically *)
Theorem print_injective_uniform : forall s t m,
  uniform m s = true -> uniform m t = true ->
  syn_ok s = true -> modes_wf s = true -> syn_ok t = true -> modes_wf t = true ->
  print_type s = print_type t -> s = t.
Proof. exact PrintProofs.print_injective_uniform. Qed.

Print Assumptions parse_print_type.
Print Assumptions print_injective.
Print Assumptions print_injective_uniform.
