(* C15 — printed types are unambiguous: print then parse is the identity.
   print_type is the model of SessionType.String() (compared byte for byte with Go on every run);
   lex_ty / rd_type: the reference reader of spec/TypeReader.v (its agreement with the LALR parser
   on printed types is validated on every run by feeding Go's String() output back through the
   real parser).  String() does not print the modes of non-shift nodes: `norm m t` is the
   representative of t that carries the pushed-down mode everywhere, `uniform m t` says t is
   already that representative (what checkTypeModalities guarantees). *)
Require Import Grits.Base Grits.ModeDefs Grits.Modes Grits.STypes Grits.Print Grits.EqualWF.
Require Import Grits.Forms Grits.spec.TypeReader Grits.spec.FormReader Grits.proofs.ReaderProofs Grits.proofs.LexProofs Grits.proofs.PrintProofs
               Grits.proofs.FormReaderProofs Grits.proofs.FormLexProofs.

Theorem parse_print_type : forall t m,
  uniform m t = true -> syn_ok t = true -> modes_wf t = true -> rd_type m (lex_ty (print_type t)) = Some t.
Proof. exact LexProofs.parse_print_type. Qed.

(* two types that print alike differ at most in the modes of non-shift nodes *)
Theorem print_injective : forall s t m,
  syn_ok s = true -> modes_wf s = true -> syn_ok t = true -> modes_wf t = true ->
  print_type s = print_type t -> norm m s = norm m t.
Proof. exact PrintProofs.print_injective. Qed.

(* under the same head mode, two different mode-uniform types never print identically *)
Theorem print_injective_uniform : forall s t m,
  uniform m s = true -> uniform m t = true ->
  syn_ok s = true -> modes_wf s = true -> syn_ok t = true -> modes_wf t = true ->
  print_type s = print_type t -> s = t.
Proof. exact PrintProofs.print_injective_uniform. Qed.

(* terms: print_form is the model of Form.String(); a self-style term (every name is `self` or a plain
   non-keyword identifier; String() prints neither polarities nor type annotations) prints to text
   that the reference reader of spec/FormReader.v reads back as the same term *)
Theorem parse_print_form : forall q, self_style q = true -> rd_form_all (lex_form (print_form q)) = Some q.
Proof. exact FormLexProofs.parse_print_form. Qed.

Theorem print_form_injective : forall p q,
  self_style p = true -> self_style q = true -> print_form p = print_form q -> p = q.
Proof. exact FormLexProofs.print_form_injective. Qed.

Print Assumptions parse_print_type.
Print Assumptions parse_print_form.
Print Assumptions print_form_injective.
Print Assumptions print_injective.
Print Assumptions print_injective_uniform.
