(* C14 (verdict half) — the typechecker's verdict is unchanged by consistent renaming of channel
   identifiers and function names and by permuting function / process / assumed-name declarations.
   To be merged into props/C14.v.  The renaming of type names and labels and the permutation of type
   definitions are stated (VerdictInvariant.verdict_invariant_types_statement,
   verdict_invariant_type_order_statement) and NOT proved: these theorems are the `_partial` ones. *)
Require Import Grits.Base Grits.STypes Grits.Forms Grits.TcDeps Grits.Tc Grits.TcTop Grits.spec.Typing
               Grits.proofs.TypingVerdict Grits.proofs.Equivariance Grits.proofs.DeclPerm
               Grits.proofs.VerdictInvariant.

Theorem C14_typing_equivariant_partial : forall teq r r' rf rf' p, bijection r r' -> bijection rf rf' ->
  (ProgOK teq p <-> ProgOK teq (ren_program r rf p)).
Proof. exact typing_equivariant. Qed.

Theorem C14_typing_perm_partial : forall teq p p', decl_perm p p' -> (ProgOK teq p <-> ProgOK teq p').
Proof. exact typing_perm_iff. Qed.

Theorem C14_verdict_invariant_partial : forall r r' rf rf' p, bijection r r' -> bijection rf rf' ->
  (accepts p <-> accepts (ren_program r rf p)).
Proof. exact verdict_invariant_partial. Qed.

Theorem C14_verdict_invariant_perm_partial : forall p p', decl_perm p p' -> (accepts p <-> accepts p').
Proof. exact verdict_invariant_perm. Qed.

Print Assumptions C14_typing_equivariant_partial.
Print Assumptions C14_typing_perm_partial.
Print Assumptions C14_verdict_invariant_partial.
Print Assumptions C14_verdict_invariant_perm_partial.
