(* C14 (verdict half) — the typechecker's verdict is unchanged by consistent renaming of channel
   identifiers and function names and by permuting function / process / assumed-name declarations.
   To be merged into props/C14.v.  Renaming of type names and labels is proved relative to a
   type-equality relation decided by EqualType and invariant under the renaming (C08's bisimilarity).
   Permutation of the TYPE definitions is proved relative to a type-equality relation decided by
   EqualType that depends on the environment through lookups only (the `_partial` theorems), and both
   are CLOSED with C08's bisimilarity (C14_verdict_invariant_types, C14_verdict_invariant_type_order)
   for programs whose types are syntactically well-formed (prog_syn_ok; for a renaming also the renamed
   program: the new names must be LABEL lexemes — "avoiding keywords" at the level of the AST). *)
Require Import Grits.Base Grits.STypes Grits.Forms Grits.TcDeps Grits.Tc Grits.TcTop Grits.spec.Typing
               Grits.proofs.TypingVerdict Grits.proofs.Equivariance Grits.proofs.DeclPerm
               Grits.proofs.EquivarianceTypes Grits.proofs.TypePerm Grits.proofs.VerdictInvariant
               Grits.spec.SynOk Grits.proofs.TypingBisim Grits.proofs.BisimInvariance.

Theorem C14_typing_equivariant_partial : forall teq r r' rf rf' p, bijection r r' -> bijection rf rf' -> r "" = "" ->
  (ProgOK teq p <-> ProgOK teq (ren_program r rf p)).
Proof. exact typing_equivariant. Qed.

Theorem C14_typing_perm_partial : forall teq p p', decl_perm p p' -> (ProgOK teq p <-> ProgOK teq p').
Proof. exact typing_perm_iff. Qed.

Theorem C14_verdict_invariant_partial : forall r r' rf rf' p, bijection r r' -> bijection rf rf' -> r "" = "" ->
  (accepts p <-> accepts (ren_program r rf p)).
Proof. exact verdict_invariant_partial. Qed.

Theorem C14_verdict_invariant_perm_partial : forall p p', decl_perm p p' -> (accepts p <-> accepts p').
Proof. exact verdict_invariant_perm. Qed.

Theorem C14_typing_equivariant_types_partial : forall teq rt rt' rl rl' p, bijection_t rt rt' -> bijection_t rl rl' ->
  teq_equivariant teq rt rl -> teq_equivariant teq rt' rl' ->
  (ProgOK teq p <-> ProgOK teq (rent_program rt rl p)).
Proof. exact typing_equivariant_types. Qed.

Theorem C14_verdict_invariant_types_partial : forall teq rt rt' rl rl' p,
  teq_decided teq -> bijection_t rt rt' -> bijection_t rl rl' ->
  teq_equivariant teq rt rl -> teq_equivariant teq rt' rl' ->
  (accepts p <-> accepts (rent_program rt rl p)).
Proof. exact verdict_invariant_types. Qed.

Theorem C14_verdict_invariant_type_order_partial : forall teq p D',
  teq_decided teq -> teq_env_invariant teq -> Permutation.Permutation (p_types p) D' ->
  (accepts p <-> accepts (with_types p D')).
Proof. exact verdict_invariant_type_order. Qed.

(* ---- closed with C08 (bisimilarity), for programs whose types are syntactically well-formed *)
Theorem C14_verdict_invariant_type_order : forall p D', prog_syn_ok p = true ->
  Permutation.Permutation (p_types p) D' -> (accepts p <-> accepts (with_types p D')).
Proof. exact verdict_invariant_type_order_closed. Qed.

Theorem C14_verdict_invariant_types : forall rt rt' rl rl' p,
  prog_syn_ok p = true -> prog_syn_ok (rent_program rt rl p) = true ->
  bijection_t rt rt' -> bijection_t rl rl' -> (accepts p <-> accepts (rent_program rt rl p)).
Proof. exact verdict_invariant_types_closed. Qed.

Print Assumptions C14_verdict_invariant_type_order.
Print Assumptions C14_verdict_invariant_types.
Print Assumptions C14_verdict_invariant_type_order_partial.
Print Assumptions C14_typing_equivariant_types_partial.
Print Assumptions C14_verdict_invariant_types_partial.
Print Assumptions C14_typing_equivariant_partial.
Print Assumptions C14_typing_perm_partial.
Print Assumptions C14_verdict_invariant_partial.
Print Assumptions C14_verdict_invariant_perm_partial.
