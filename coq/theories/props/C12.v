(* C12 — the parser accepts only complete grammatical texts; nothing is silently ignored.
   For every byte string s with parse_statements s = POk l (and hence for every accepted text):
   the spans the scanner consumed, laid end to end, ARE s; each span is whitespace/comment trivia or
   whitespace + a spelling of the token it yields; no token is ILLEGAL; the accept action was taken
   on the end-of-input token with every other token shifted, and those tokens form a sentence of the
   grammar recovered from the LR tables of the current parser.y.go; the parsed program has exactly
   the declarations of the statement list.  Inserting a character outside the alphabet at a token
   boundary of any text makes the text rejected.
   Proofs: proofs/ScanCover.v, LRSound.v (+ LRSoundInst.v by computation), ParseSound.v,
   ExpandProofs.v, IllegalReject.v, ScanLocal.v, ActionsTyped.v. *)
Require Import Grits.spec.RefGrammar.
Require Grits.gen.RuneTable Grits.GenRuneChecks Grits.proofs.RuneSweepAgree.
Require Import Grits.Base Grits.ModeDefs Grits.Modes Grits.STypes Grits.Forms Grits.Tokens Grits.Scan
               Grits.gen.LRTables Grits.gen.LRCert Grits.LR Grits.Actions Grits.Expand
               Grits.spec.ScanSpec Grits.spec.Grammar
               Grits.proofs.ScanProofs Grits.proofs.ScanCover Grits.proofs.LRCheck Grits.proofs.LRProof
               Grits.proofs.LRCertInst Grits.proofs.LRSound Grits.proofs.LRSoundInst Grits.proofs.ParseSound
               Grits.proofs.ExpandProofs Grits.proofs.IllegalReject Grits.proofs.ScanLocal Grits.proofs.ActionsTyped.
Local Open Scope Z_scope.

(* the instrumented scanner produces the tokens of the model's scanner *)
Theorem C12_scan_items_tokens : forall s, exists l u, scan_items s = Some (l, u) /\ scan_all s = Tokens (items_tokens l).
Proof. exact scan_items_tokens. Qed.

(* the input is the concatenation of the spans consumed (u: the part behind an ILLEGAL token, where
   scanning stops and the text is rejected); every span is trivia or a spelling of its token *)
Theorem C12_scan_covers : forall s l u, scan_items s = Some (l, u) -> s = items_cover l u /\ items_ok l u.
Proof. exact scan_covers. Qed.

(* LR soundness over the current tables: accept only on `$end`, `$end` never shifted, the shifted
   tokens are a sentence of the recovered grammar *)
Theorem C12_lr_sound : forall (V : Type) (tv : tk * string -> V) (ra : Z -> list V -> option V) fuel (v0 v : V) toks,
  run V tv ra fuel [(0, v0)] toks = LRAccept v ->
  exists w rest, toks = w ++ rest /\ lookahead rest = tEofCode /\ Derives START (map tokz w) /\
                 Forall (fun t => tokz t <> tEofCode) w.
Proof. exact lr_sound. Qed.

(* the grammar those derivations are in IS the documented one: the productions recovered from the current tables
   (regenerated from /repo on every run) equal the committed reference list spec/RefGrammar.v *)
Theorem C12_grammar_is_reference : tR1 = ref_lhs_tab /\ tRhs = ref_rhs_tab.
Proof. exact grammar_is_reference. Qed.

Theorem C12_accept_consumes_all : forall s l, parse_statements s = POk l -> accepted_text s l.
Proof. exact accept_consumes_all. Qed.

Theorem C12_no_illegal_accept : forall s l, parse_statements s = POk l ->
  exists toks, scan_all s = Tokens toks /\ Forall (fun t => fst t <> T_ILLEGAL) toks.
Proof. exact no_illegal_accept. Qed.

Theorem C12_decls_preserved : forall s p, parse_string s = POk p ->
  exists l, parse_statements s = POk l /\
    map td_name (p_types p) = stmt_types l /\
    map fn_name (p_funs p) = stmt_funs l /\
    p_assumed p = stmt_assumed l /\
    map pr_providers (p_procs p) = stmt_procs l ++ map fst (exec_procs 0 (stmt_execs l)) /\
    (length (p_types p) + length (p_funs p) + length (p_procs p) +
     length (filter (fun s => match s with SAssume _ => true | _ => false end) l) = length l)%nat.
Proof. exact decls_preserved. Qed.

Theorem C12_illegal_at_boundary_rejected : forall s ws c b,
  boundary s (ws ^^ String c b) -> all_ws ws = true -> illegal_char c = true ->
  forall l, parse_statements s <> POk l.
Proof. exact illegal_at_boundary_rejected. Qed.

(* the quantifier of the property: P = a ^^ b with b a token boundary of P (a call of Scan starts at b
   after real tokens and comments closed inside the text); inserting a character outside the alphabet
   at that boundary gives a text that is rejected.  (One call of Scan depends on the text behind the
   bytes it consumes only through the next byte: proofs/ScanLocal.v.) *)
Theorem C12_insert_illegal_rejected : forall P a b c,
  cboundary P a b -> illegal_char c = true -> forall l, parse_statements (a ^^ String c b) <> POk l.
Proof. exact insert_illegal_rejected. Qed.

Theorem C12_outside_alphabet_illegal : forall c,
  In (code c) [64; 35; 36; 126; 33; 63; 34; 94; 96; 0; 127]%nat \/ (128 <= code c)%nat -> illegal_char c = true.
Proof. exact outside_alphabet_illegal. Qed.

(* the statement list returned by the parse has exactly one entry per reduction by a production that
   introduces a declaration (2: bare expression as whole program; 4-13: the `statements` rules);
   run_count is the driver instrumented with that counter *)
Theorem C12_run_count_is_run : forall fuel stk inp n, fst (run_count fuel stk inp n) = run sval tok_val reduce_action fuel stk inp.
Proof. exact run_count_fst. Qed.

Theorem C12_statements_are_the_reductions : forall fuel toks l m,
  run_count fuel [(0, VUnit)] toks 0 = (LRAccept (VStmts l), m) -> length l = m.
Proof. exact statements_are_the_reductions. Qed.

Print Assumptions C12_scan_items_tokens.
Print Assumptions C12_run_count_is_run.
Print Assumptions C12_statements_are_the_reductions.
Print Assumptions C12_scan_covers.
Print Assumptions C12_lr_sound.
Print Assumptions C12_accept_consumes_all.
Print Assumptions C12_no_illegal_accept.
Print Assumptions C12_decls_preserved.
Print Assumptions C12_illegal_at_boundary_rejected.
Print Assumptions C12_insert_illegal_rejected.
Print Assumptions C12_outside_alphabet_illegal.
Print Assumptions C12_grammar_is_reference.

(* ---- the model's treatment of non-ASCII input is what the CODE does ----
   Scan.v sees every byte >= 0x80 as one "other" character (ILLEGAL outside comments, skipped inside).
   gen/RuneTable.v is regenerated on every run by executing the REAL scanner on every rune
   U+0080..U+10FFFF alone and on a covering sample in eleven further contexts; in every context all runes
   behave alike and as the model's "other" byte does. *)
Theorem C12_rune_sweep_agrees : Grits.GenRuneChecks.rune_sweep_ok_b = true.
Proof. exact Grits.proofs.RuneSweepAgree.rune_sweep_agrees. Qed.
Print Assumptions C12_rune_sweep_agrees.
