(* C09 — typechecking is total: always a verdict, never a crash or hang.
   Model: TcTop.typecheck (the worker's computation, with Go panics and runaway recursion as values)
   run under TcDriver's caller/worker protocol.  Statements only; proofs in proofs/TcEnv.v,
   proofs/TcTotal.v, proofs/TcDriverProofs.v, proofs/C09Main.v.
   proofs/TcTotal.v takes two facts about package `types` as Section hypotheses (EqualType and
   AddMissingModalities return); both are proved for the model's current definitions in
   proofs/TcEqFuel.v and proofs/TcInferFuel.v and instantiated in proofs/C09Main.v, so the theorems
   below have no premise.  The `_given` variants keep EqualType's termination as an explicit premise
   (stated over TcDeps' boolean checks), for the case that TcDeps.equal_type is replaced by C08's. *)
Require Import Grits.Base Grits.ModeDefs Grits.STypes Grits.Forms Grits.Infer Grits.TcDeps Grits.Expand
               Grits.Tc Grits.TcTop Grits.TcDriver
               Grits.proofs.TcEnv Grits.proofs.TcTotal Grits.proofs.TcDriverProofs Grits.proofs.TcInferFuel Grits.proofs.TcEqFuel Grits.proofs.C09Main.

(* the worker's computation: for every program the parser accepts (in fact for every program) no
   modelled Go panic is reached and no fuel (Unfold, isContractive) runs out *)
Theorem C09_tc_total :
  forall p, parsed p -> (forall w, typecheck p <> RejectInternal w) /\ (forall w, typecheck p <> Diverge w).
Proof. exact tc_total_closed. Qed.

Theorem C09_tc_total_given : equal_terminates_stmt ->
  forall p, parsed p -> (forall w, typecheck p <> RejectInternal w) /\ (forall w, typecheck p <> Diverge w).
Proof. exact tc_total_1. Qed.

Theorem C09_tc_total_all_programs :
  forall p, (forall w, typecheck p <> RejectInternal w) /\ (forall w, typecheck p <> Diverge w).
Proof. exact tc_total_all_closed. Qed.

(* SanityChecksTypeDefinitions by itself (no premise): never panics on an undefined label, never
   recurses without bound *)
Theorem C09_sanity_typedefs_total : forall D, exists b, sanity_typedefs D = Ok b.
Proof. exact sanity_typedefs_total. Qed.

(* EqualType always returns (the two-level fuel handed to innerEqualType suffices) *)
Theorem C09_equal_type_total : forall D s t, exists b, equal_type D s t = Ok b.
Proof. exact equal_type_total. Qed.

(* AddMissingModalities always returns (the fuel handed to inferModality suffices) *)
Theorem C09_add_missing_total : forall D t, exists t', add_missing D t = Ok t'.
Proof. exact TcInferFuel.add_missing_total. Qed.

(* after the sanity checks Unfold has enough fuel, never yields nil, and never yields a name *)
Theorem C09_unfold_after_sanity : forall D t, sanity_typedefs D = Ok true -> check_wf D t = true ->
  exists u, unfold D t = Ok (Some u) /\ is_name u = false /\ check_wf D u = true.
Proof. exact unfold_wf. Qed.

(* the protocol, for every schedule, for any computation that returns *)
Theorem C09_tc_protocol : forall (A : Type) (res : tcr A), (forall w, res <> THang w) ->
  exists r0,
    returns res = Some r0 /\
    (r0 = None <-> exists a, res = TOk a) /\
    (forall v, res = TPanic v -> r0 <> None) /\
    forall tr s, run res init tr s ->
      (length tr <= 6)%nat /\ crashed s = false /\
      (final s \/ exists l s', step res s l s') /\
      (stuck res s -> s = mkState (CReturned r0) WFinished None false) /\
      (forall r, cal s = CReturned r -> r = r0 /\ (wrk s = WDoneSent \/ wrk s = WFinished) /\ buf s = None) /\
      (forall r, wrk s = WHasResult r -> buf s = None /\ exists s', step res s LSend s') /\
      (wrk s = WDoneSent -> (exists s', step res s LExit s') /\
                            forall l s', step res s l s' -> l = LExit \/ (l = LRecv /\ wrk s' = WDoneSent)).
Proof. exact (@tc_protocol). Qed.

(* both halves together *)
Theorem C09_typecheck_total : forall p, parsed p ->
  (forall w, typecheck p <> RejectInternal w) /\ (forall w, typecheck p <> Diverge w) /\
  exists r0,
    typecheck_returns p = Some r0 /\
    (r0 = None <-> exists p', typecheck p = Accept p') /\
    (r0 <> None <-> typecheck p = Reject) /\
    forall tr s, run (tc_program p) init tr s ->
      (length tr <= 6)%nat /\ crashed s = false /\
      (final s \/ exists l s', step (tc_program p) s l s') /\
      (stuck (tc_program p) s -> s = mkState (CReturned r0) WFinished None false) /\
      (forall r, cal s = CReturned r -> r = r0 /\ (wrk s = WDoneSent \/ wrk s = WFinished) /\ buf s = None) /\
      (forall r, wrk s = WHasResult r -> buf s = None /\ exists s', step (tc_program p) s LSend s') /\
      (wrk s = WDoneSent -> (exists s', step (tc_program p) s LExit s') /\
                            forall l s', step (tc_program p) s l s' -> l = LExit \/ (l = LRecv /\ wrk s' = WDoneSent)).
Proof. exact typecheck_total_closed. Qed.

(* why the first half is needed: a diverging computation kills the host *)
Theorem C09_overflow_crashes_host : forall (A : Type) (res : tcr A) w, res = THang w ->
  exists tr s, run res init tr s /\ crashed s = true /\ forall r, cal s <> CReturned r.
Proof. exact (@tc_protocol_overflow_crashes). Qed.

(* regression guard: the protocol before the fix (findings F6, F14) *)
Theorem C09_old_success_then_crash : forall (A : Type) (rest : tcr A) v,
  oruns (TPanic v) rest oinit (mkO (OReturned None) OPanicked true).
Proof. exact (@old_success_then_crash). Qed.
Theorem C09_old_crash_after_return : forall (A : Type) e w,
  oruns (TErr e : tcr A) (THang w) oinit (mkO (OReturned (Some e)) ORunningOn true).
Proof. exact (@old_crash_after_return). Qed.
Theorem C09_old_worker_leaks : forall (A : Type) e (rest : tcr A), (forall w, rest <> THang w) ->
  exists s, oruns (TErr e) rest oinit s /\ ocal s = OReturned (Some e) /\ oblocked s /\
            forall s', ~ ostep (TErr e) rest s s'.
Proof. exact (@old_worker_leaks). Qed.

(* ---------- non-vacuity ---------- *)
Definition verdict_code (s : string) : option nat :=
  match parse_string s with
  | POk p => Some (match typecheck p with Accept _ => 0 | Reject => 1 | RejectInternal _ => 2 | Diverge _ => 3 end)
  | _ => None
  end.
Definition env_ok (s : string) : option (outcome bool) :=
  match parse_string s with POk p => Some (sanity_typedefs (p_types p)) | _ => None end.

(* `parsed` is inhabited, by accepted and by rejected programs; the environment premise of the
   lemmas is reached (recursive definitions, name chains) *)
Example C09_ex_accept : verdict_code "type A = &{l : B}
type B = 1
let f(x : A) : B = x.l<+self>" = Some 0.
Proof. vm_compute. reflexivity. Qed.
Example C09_ex_accept_recursive : verdict_code "type A = +{l : A}
type B = +{l : B}
let g(x : A) : B = fwd self x" = Some 0
  /\ env_ok "type A = +{l : A}
type B = +{l : B}
let g(x : A) : B = fwd self x" = Some (Ok true).
Proof. vm_compute. split; reflexivity. Qed.
(* the inputs of the recorded findings now get a verdict *)
Example C09_ex_reject_noncontractive : verdict_code "type A = A
let f(b : A) : A = fwd self b" = Some 1.
Proof. vm_compute. reflexivity. Qed.
Example C09_ex_reject_failed_split : verdict_code "let f(a : 1, b : 1) : 1 = wait a; wait b; close self
let g(x : 1) : 1 = x <- new f(x, zz); wait x; close self" = Some 1.
Proof. vm_compute. reflexivity. Qed.
Example C09_ex_reject_garbage : verdict_code "type A = foo /\ bar A
prc[a, a] : A = x <- new undefined(+self, -x); case x ()" = Some 1.
Proof. vm_compute. reflexivity. Qed.

(* the panics are really in the model: outside the invariant the theorem maintains (a context entry
   whose type is nil; a provider type that is a bare undefined name) they are reached *)
Example C09_ex_model_can_panic :
  (exists w, tc_form [] [] [("x", None)] None (Some (TUnit Rep)) (FDrop (plain_name "x") (FClose self_name)) = TPanic w) /\
  (exists w, tc_form [] [] [] None (Some (TName "Z" Rep)) (FClose self_name) = TPanic w).
Proof. split; eexists; vm_compute; reflexivity. Qed.
Example C09_ex_model_can_hang :
  exists w, unfold [{| td_name := "A"; td_body := TName "A" Rep; td_mode := Rep |}] (TName "A" Rep) = Hang w.
Proof. eexists. vm_compute. reflexivity. Qed.

(* two complete schedules of the protocol, ending in the final state with nil / with an error *)
Example C09_ex_run_ok :
  run (TOk tt) init [LSpawn; LCompute; LSend; LRecv; LExit] (mkState (CReturned None) WFinished None false) /\
  run (TOk tt) init [LSpawn; LCompute; LSend; LExit; LRecv] (mkState (CReturned None) WFinished None false).
Proof.
  split; repeat (eapply run_cons; [first [apply SSpawn | apply SCompute; reflexivity | apply SSend | apply SExit | apply SRecv]|]);
    apply run_nil.
Qed.
Example C09_ex_run_recovered_panic :
  run (TPanic "nil dereference" : tcr unit) init [LSpawn; LCompute; LSend; LRecv; LExit]
      (mkState (CReturned (Some "internal typechecker error: nil dereference")) WFinished None false).
Proof.
  repeat (eapply run_cons; [first [apply SSpawn | apply SCompute; reflexivity | apply SSend | apply SExit | apply SRecv]|]);
    apply run_nil.
Qed.

Print Assumptions C09_tc_total.
Print Assumptions C09_equal_type_total.
Print Assumptions C09_tc_total_all_programs.
Print Assumptions C09_tc_protocol.
Print Assumptions C09_typecheck_total.
Print Assumptions C09_old_worker_leaks.
