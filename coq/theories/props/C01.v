(* C01 — type safety: accepted programs never hit a run-time protocol error.
   PROVED (no axioms; hypotheses are explicit premises of the theorems), for EVERY form of the
   language — the connectives {1, ⊗, ⊸, ⊕, &, ↓, ↑} on both sides, cut, call, print, forward (both
   polarities), drop (droppable forwards, GC requests), split and processes with several providers
   (DUP) — and the two POLARIZED execution modes (asynchronous one-place buffers, synchronous rendezvous):
     * C01_step_error_inv : exact characterisation of when the interpreter model reports an error
       (all three modes, all forms) — the list the invariants have to exclude;
     * C01_typed_subst / C01_typed_weaken / C01_preservation(_polarized) / C01_no_error_async /
       C01_no_error_polarized : the structural run-time typing of configurations (spec/RtTyping.v) is
       preserved by every step and excludes EVERY run-time error (premises: `teq_laws` for the type
       equality, the function table is typed, nobody uses a closed channel — the one part of Topo
       that typing cannot give);
     * C01_initial_typed : the initial configuration of a statically typed program is typed;
     * C01_safety_partial : no schedule of an accepted closed program reaches an error in either
       polarized mode — premises: teq_ok, tc_annotations_typed, topo_reachable (proofs/RtTheorems.v);
     * C01_static_check_sound / C01_safety_checked_partial : the premise tc_annotations_typed is
       replaced by the verdict of a verified checker on the annotated program (run on the whole
       suite by lib/vlib/props/C01.py);
     * C01_teq_rt_laws / C01_tc_annotations_typed / C01_safety_tc_partial : the premises teq_ok and
       tc_annotations_typed are THEOREMS for the agreement teq_rt (identity or bisimilarity of the
       unfoldings, spec/TypEq.v): whatever the typechecker model returns for a closed program is
       typed in the run-time judgement, all 14 forms (proofs/RtTcSound.v, RtTcSoundTop.v, RtTcBisim.v).
       Premises left in C01_safety_tc_partial: prog_syn_ok p and raw_ok p (two computable conditions on
       the AST: types and names are what the parser and expansion produce) and Topo on the reachable
       configurations.  Both conditions are THEOREMS for parsed programs (C01_parse_raw_ok,
       proofs/ParseSynOk.v): C01_safety_parsed_partial has no premise but acceptance and Topo.
       What the run-time judgement needs beyond raw_ok is derived from acceptance (a context entry the
       body cannot name makes the checker fail; guard providers_not_self, F31).  Programs in which the
       keyword self is the binder that rebinds the provider (`<x, self> <- recv self; k`) are covered
       (spec/RtTyping.v: pbinder).
     * C01_preservation_np / C01_no_error_np / C01_safety_np_parsed_partial /
       C01_safety_all_modes_parsed_partial : the NON-POLARIZED mode (proofs/RtSafetyNP.v), all forms: the
       same configuration typing is preserved by every step — the new one is the control message of
       a forward, whose providers replace the provider entry it was sent to — and excludes every
       run-time error; no type is read at run time in this mode.  With it the statement aimed at
       (`safety_statement`: the three modes) holds of every parsed, accepted, closed program with
       Topo on the reachable configurations as the only premise.
     * C01_safety_parsed : THE statement for the polarized modes — no schedule of a parsed, accepted,
       closed program reaches a run-time error — with NO further premise: the forest invariant Topo
       along the runs is proofs/DeterminismAll.v (topo_runs_all, for sources passing all_src_b: no
       empty case, no droppable forward form) and all_src_b is a theorem for parsed accepted
       programs (C01_all_src_parsed: proofs/SrcAll.v — choice types are non-empty and the checker
       demands a branch per label; the parser never builds a droppable forward).
     * C01_safety_all_modes_parsed : the same in ALL THREE execution modes (`safety_statement`): Topo along
       the runs of the non-polarized mode is proofs/InvNP.v / DeterminismNP.v (another contributor).
   Every statement above is closed under the global context; nothing is left as a premise for parsed,
   accepted, closed programs. *)
From stdpp Require Import gmap strings.
Require Grits.PolarityDefs Grits.gen.PolarityTable Grits.GenPolarityChecks Grits.proofs.PolarityTableAgree.
Require Import Grits.Base Grits.ModeDefs Grits.Modes Grits.STypes Grits.Forms Grits.Subst Grits.TcDeps Grits.Expand
               Grits.Tc Grits.TcTop Grits.Runtime Grits.spec.RtTyping Grits.spec.Topo
               Grits.proofs.StepErrors Grits.proofs.RtSubst Grits.proofs.RtEffect Grits.proofs.RtSafety
               Grits.proofs.RtInit Grits.proofs.RtTheorems Grits.proofs.RtStaticCheck
               Grits.spec.SynOk Grits.proofs.RtTcSyn Grits.proofs.RtTcBisim Grits.proofs.ParseRaw Grits.proofs.RtSafetyNP Grits.proofs.RtTheoremsTc
               Grits.proofs.InitAccept Grits.proofs.DeterminismAll Grits.proofs.SrcAll Grits.proofs.RtTheoremsFinal.

Theorem C01_step_error_inv : forall md D F c ch who e,
  step md D F c ch = SError who e <-> step_err md D F c ch who e.
Proof. exact step_error_inv. Qed.

Theorem C01_typed_weaken : forall D F teq Δ Δ' Γ sh rs s f,
  Δ ⊆ Δ' -> typed D F teq Δ Γ sh rs s f -> typed D F teq Δ' Γ sh rs s f.
Proof. exact typed_weaken. Qed.

Theorem C01_typed_subst : forall D F teq, teq_laws D teq ->
  forall Δ Γ sh rs s f old new A,
  chan old = None -> is_chan_of teq Δ new A -> sh <> Some (ident old) -> ident old ∉ rs ->
  typed D F teq Δ (<[ident old := A]> Γ) sh rs s f -> typed D F teq Δ Γ sh rs s (subst old new f).
Proof. exact typed_subst. Qed.

Theorem C01_preservation : forall D F teq, teq_laws D teq -> funs_typed D F teq ->
  forall Δ c self c',
  cfg_typed D F teq Δ c -> closed_unused D Async c -> step Async D F c (Run self) = SStep c' ->
  exists Δ', Δ ⊆ Δ' /\ cfg_typed D F teq Δ' c'.
Proof. exact preservation. Qed.

Theorem C01_no_error_async : forall D F teq, teq_laws D teq -> funs_typed D F teq ->
  forall Δ c ch who e,
  cfg_typed D F teq Δ c -> closed_unused D Async c -> step Async D F c ch <> SError who e.
Proof. exact no_error_async. Qed.

(* both polarized modes (Async: one-place buffers; Sync: rendezvous), every kind of step *)
Theorem C01_preservation_polarized : forall D F teq, teq_laws D teq -> funs_typed D F teq ->
  forall md Δ c ch c', is_np md = false ->
  cfg_typed D F teq Δ c -> closed_unused D md c -> step md D F c ch = SStep c' ->
  exists Δ', Δ ⊆ Δ' /\ cfg_typed D F teq Δ' c'.
Proof. exact preservation_md. Qed.

Theorem C01_no_error_polarized : forall D F teq, teq_laws D teq -> funs_typed D F teq ->
  forall md Δ c ch who e, is_np md = false ->
  cfg_typed D F teq Δ c -> closed_unused D md c -> step md D F c ch <> SError who e.
Proof. exact no_error_md. Qed.

Theorem C01_topo_closed_unused : forall md D c, is_np md = false -> Topo c -> closed_unused D md c.
Proof. exact topo_closed_unused. Qed.

Theorem C01_initial_typed : forall teq p,
  teq_laws (p_types p) teq -> static_typed teq p ->
  cfg_typed (p_types p) (p_funs p) teq (init_delta p) (init_config p).
Proof. exact initial_typed. Qed.

Theorem C01_safety_partial : forall teqD : tenv -> sty -> sty -> Prop,
  (* teq_ok *)
  (forall p p', typecheck p = Accept p' -> teq_laws (p_types p') (teqD (p_types p'))) ->
  (* tc_annotations_typed *)
  (forall p p', typecheck p = Accept p' -> in_fragment p' -> static_typed (teqD (p_types p')) p') ->
  (* topo_reachable *)
  (forall p p' md c, typecheck p = Accept p' -> in_fragment p' -> is_np md = false ->
                     reachable (p_types p') (p_funs p') md (init_config p') c -> Topo c) ->
  forall p p' md, typecheck p = Accept p' -> in_fragment p' -> is_np md = false ->
  forall fuel pick c who e,
    exec_run fuel pick md (p_types p') (p_funs p') (init_config p') <> RError c who e.
Proof. exact safety_partial. Qed.

(* the premise tc_annotations_typed is DECIDED per program by a verified checker (run by the check
   module on every program of the suite): where it answers SV_typed the annotated output of the
   typechecker satisfies the run-time judgement, with the equality the Go code computes *)
Theorem C01_static_check_sound : forall txt, static_check_text txt = SV_typed ->
  exists p p', parse_string txt = POk p /\ typecheck p = Accept p' /\ in_fragment p' /\
               static_typed (teq_alg (p_types p')) p'.
Proof. exact static_check_sound. Qed.

Theorem C01_safety_checked_partial : forall txt p p' md,
  parse_string txt = POk p -> typecheck p = Accept p' -> static_check_text txt = SV_typed ->
  teq_laws (p_types p') (teq_alg (p_types p')) ->
  (forall c, reachable (p_types p') (p_funs p') md (init_config p') c -> Topo c) ->
  is_np md = false ->
  forall fuel pick c who e,
    exec_run fuel pick md (p_types p') (p_funs p') (init_config p') <> RError c who e.
Proof. exact safety_checked_partial. Qed.

(* the two former premises, for the agreement teq_rt D s t := s = t \/ TypEq.Bisim D s t *)
Theorem C01_teq_rt_laws : forall D, teq_laws D (teq_rt D).
Proof. exact teq_rt_laws. Qed.

Theorem C01_tc_annotations_typed : forall p p',
  typecheck p = Accept p' -> prog_syn_ok p = true -> raw_ok p = true -> p_assumed p' = [] ->
  static_typed (teq_rt (p_types p')) p'.
Proof. exact tc_annotations_typed_rt. Qed.

Theorem C01_initial_typed_tc : forall p p',
  typecheck p = Accept p' -> in_fragment p' -> prog_syn_ok p = true -> raw_ok p = true ->
  cfg_typed (p_types p') (p_funs p') (teq_rt (p_types p')) (init_delta p') (init_config p').
Proof. exact initial_typed_tc. Qed.

(* C01 without teq_ok and tc_annotations_typed *)
Theorem C01_safety_tc_partial : forall p p' md,
  typecheck p = Accept p' -> in_fragment p' -> prog_syn_ok p = true -> raw_ok p = true ->
  (* topo_runs *)
  (forall md c, is_np md = false -> reachable (p_types p') (p_funs p') md (init_config p') c -> Topo c) ->
  is_np md = false ->
  forall fuel pick c who e,
    exec_run fuel pick md (p_types p') (p_funs p') (init_config p') <> RError c who e.
Proof. exact safety_tc_partial. Qed.

(* for programs that come out of the parser prog_syn_ok and raw_ok are theorems *)
Theorem C01_parse_raw_ok : forall s p, parse_string s = POk p -> raw_ok p = true.
Proof. exact parse_raw_ok. Qed.

Theorem C01_safety_parsed_partial : forall txt p p' md,
  parse_string txt = POk p -> typecheck p = Accept p' -> in_fragment p' ->
  (forall md c, is_np md = false -> reachable (p_types p') (p_funs p') md (init_config p') c -> Topo c) ->
  is_np md = false ->
  forall fuel pick c who e,
    exec_run fuel pick md (p_types p') (p_funs p') (init_config p') <> RError c who e.
Proof. exact safety_parsed_partial. Qed.

(* the non-polarized mode *)
Theorem C01_preservation_np : forall D F teq, teq_laws D teq -> funs_typed D F teq ->
  forall Δ c ch c',
  cfg_typed D F teq Δ c -> closed_unused D NP c -> step NP D F c ch = SStep c' ->
  exists Δ', Δ ⊆ Δ' /\ cfg_typed D F teq Δ' c'.
Proof. exact preservation_np. Qed.

Theorem C01_no_error_np : forall D F teq, teq_laws D teq -> funs_typed D F teq ->
  forall Δ c ch who e,
  cfg_typed D F teq Δ c -> closed_unused D NP c -> step NP D F c ch <> SError who e.
Proof. exact no_error_np. Qed.

Theorem C01_topo_closed_unused_np : forall D c, Topo c -> closed_unused D NP c.
Proof. exact topo_closed_unused_np. Qed.

Theorem C01_safety_np_parsed_partial : forall txt p p',
  parse_string txt = POk p -> typecheck p = Accept p' -> in_fragment p' ->
  (forall c, reachable (p_types p') (p_funs p') NP (init_config p') c -> Topo c) ->
  forall fuel pick c who e,
    exec_run fuel pick NP (p_types p') (p_funs p') (init_config p') <> RError c who e.
Proof. exact safety_np_parsed_partial. Qed.

(* the three modes *)
Theorem C01_safety_all_modes_parsed_partial : forall txt p p' md,
  parse_string txt = POk p -> typecheck p = Accept p' -> in_fragment p' ->
  (forall c, reachable (p_types p') (p_funs p') md (init_config p') c -> Topo c) ->
  forall fuel pick c who e,
    exec_run fuel pick md (p_types p') (p_funs p') (init_config p') <> RError c who e.
Proof. exact safety_all_modes_parsed_partial. Qed.

(* ------------------------------------------------------------------ no premise beyond parsed / accepted / closed (polarized modes) *)
Theorem C01_accepted_nonempty_cases : forall p p',
  typecheck p = Accept p' -> prog_syn_ok p = true -> nec_src_b p = true.
Proof. exact accepted_nonempty_cases. Qed.

Theorem C01_all_src_parsed : forall txt p p',
  parse_string txt = POk p -> typecheck p = Accept p' -> all_src_b p = true.
Proof. exact all_src_parsed. Qed.

Theorem C01_topo_runs_parsed : forall txt p p',
  parse_string txt = POk p -> typecheck p = Accept p' -> in_fragment p' ->
  forall md c, is_np md = false -> reachable (p_types p') (p_funs p') md (init_config p') c -> Topo c.
Proof. exact topo_runs_parsed. Qed.

Theorem C01_safety_parsed : forall txt p p' md,
  parse_string txt = POk p -> typecheck p = Accept p' -> in_fragment p' -> is_np md = false ->
  forall fuel pick c who e,
    exec_run fuel pick md (p_types p') (p_funs p') (init_config p') <> RError c who e.
Proof. exact safety_parsed. Qed.

Theorem C01_topo_runs_np_parsed : forall txt p p',
  parse_string txt = POk p -> typecheck p = Accept p' -> in_fragment p' ->
  forall c, reachable (p_types p') (p_funs p') NP (init_config p') c -> Topo c.
Proof. exact topo_runs_np_parsed. Qed.

Theorem C01_safety_all_modes_parsed : forall txt p p' md,
  parse_string txt = POk p -> typecheck p = Accept p' -> in_fragment p' ->
  forall fuel pick c who e,
    exec_run fuel pick md (p_types p') (p_funs p') (init_config p') <> RError c who e.
Proof. exact safety_all_modes_parsed. Qed.

Theorem C01_reachable_typed_parsed : forall txt p p' md c,
  parse_string txt = POk p -> typecheck p = Accept p' -> in_fragment p' -> is_np md = false ->
  reachable (p_types p') (p_funs p') md (init_config p') c ->
  exists Δ, init_delta p' ⊆ Δ /\ cfg_typed (p_types p') (p_funs p') (teq_rt (p_types p')) Δ c /\ Topo c.
Proof. exact reachable_typed_parsed. Qed.

(* the two computable premises as the check module evaluates them on every program of the suite *)
Theorem C01_syn_premises_sound : forall txt, syn_premises_text txt = SY_ok ->
  exists p p', parse_string txt = POk p /\ typecheck p = Accept p' /\ in_fragment p' /\
               prog_syn_ok p = true /\ raw_ok p = true /\
               static_typed (teq_rt (p_types p')) p'.
Proof. exact syn_premises_sound. Qed.

Example C01_examples_syn_ok :
  text_syn_ok example_text = true /\ text_syn_ok example_drop_text = true /\ text_syn_ok example_split_text = true.
Proof. exact examples_syn_ok. Qed.

Example C01_static_check_examples :
  static_check_text example_text = SV_typed /\ static_check_text example_drop_text = SV_typed /\
  static_check_text example_split_text = SV_typed.
Proof. exact static_check_examples. Qed.

(* non-vacuity: a concrete accepted program of the fragment (cut, call, ⊗, ⊸, 1, print) runs to
   quiescence without error, prints both labels and leaves no process — first-enabled and
   last-enabled schedules *)
Example C01_example_in_fragment : example_in_fragment /\ example_drop_in_fragment /\ example_split_in_fragment.
Proof. split; [|split]; vm_compute; reflexivity. Qed.

Example C01_example_runs :
  run_example Async (fun _ _ => 0%nat) = Some (0%nat, ["served"; "done"], true) /\
  run_example Async (fun _ n => pred n) = Some (0%nat, ["served"; "done"], true) /\
  (* synchronous: the top-level provider stays blocked offering its result *)
  run_example Sync (fun _ _ => 0%nat) = Some (1%nat, ["served"; "done"], true) /\
  (* drop: the dropped provider and the process it alone depended on are reclaimed *)
  run_example_drop Async (fun _ _ => 0%nat) = Some (0%nat, ["dropped"], true) /\
  run_example_drop Async (fun _ n => pred n) = Some (0%nat, ["dropped"], true) /\
  run_example_drop Sync (fun _ _ => 0%nat) = Some (1%nat, ["dropped"], true) /\
  (* split: a forward with two providers, DUP *)
  run_example_split Async (fun _ _ => 0%nat) = Some (0%nat, ["made"; "done"], true) /\
  run_example_split Async (fun _ n => pred n) = Some (0%nat, ["made"; "done"], true) /\
  run_example_split Sync (fun _ _ => 0%nat) = Some (1%nat, ["made"; "done"], true).
Proof. repeat split; vm_compute; reflexivity. Qed.

Print Assumptions C01_step_error_inv.
Print Assumptions C01_typed_weaken.
Print Assumptions C01_typed_subst.
Print Assumptions C01_preservation.
Print Assumptions C01_no_error_async.
Print Assumptions C01_preservation_polarized.
Print Assumptions C01_no_error_polarized.
Print Assumptions C01_topo_closed_unused.
Print Assumptions C01_initial_typed.
Print Assumptions C01_safety_partial.
Print Assumptions C01_static_check_sound.
Print Assumptions C01_safety_checked_partial.
Print Assumptions C01_teq_rt_laws.
Print Assumptions C01_tc_annotations_typed.
Print Assumptions C01_initial_typed_tc.
Print Assumptions C01_safety_tc_partial.
Print Assumptions C01_parse_raw_ok.
Print Assumptions C01_safety_parsed_partial.
Print Assumptions C01_preservation_np.
Print Assumptions C01_no_error_np.
Print Assumptions C01_topo_closed_unused_np.
Print Assumptions C01_safety_np_parsed_partial.
Print Assumptions C01_safety_all_modes_parsed_partial.
Print Assumptions C01_accepted_nonempty_cases.
Print Assumptions C01_all_src_parsed.
Print Assumptions C01_topo_runs_parsed.
Print Assumptions C01_safety_parsed.
Print Assumptions C01_topo_runs_np_parsed.
Print Assumptions C01_safety_all_modes_parsed.
Print Assumptions C01_reachable_typed_parsed.
Print Assumptions C01_syn_premises_sound.
Print Assumptions C01_examples_syn_ok.
Print Assumptions C01_static_check_examples.
Print Assumptions C01_example_in_fragment.
Print Assumptions C01_example_runs.

(* ---- the model's polarity / mode projections of session types are what the CODE computes ----
   gen/PolarityTable.v is regenerated on every run by EXECUTING SessionType.Polarity(), Modality(),
   IsWeakenable and IsContractable of /repo on one value of every type constructor at every mode (every
   pair of modes for the shifts); polarity_of depends on the head constructor only. *)
Theorem C01_polarity_table_agrees : Grits.GenPolarityChecks.polarity_agree_b = true.
Proof. exact Grits.proofs.PolarityTableAgree.polarity_table_agrees. Qed.
Print Assumptions C01_polarity_table_agrees.

Theorem C01_polarity_of_is_dumped : forall t : Grits.STypes.sty,
  exists t' p m w c, List.In (t', p, m, w, c) Grits.gen.PolarityTable.polarity_tbl /\
    Grits.PolarityDefs.kind_of t' = Grits.PolarityDefs.kind_of t /\
    Grits.PolarityDefs.pol_result_eqb (Grits.PolarityDefs.pol_result_of (Grits.STypes.polarity_of t)) p = true.
Proof. exact Grits.proofs.PolarityTableAgree.polarity_of_is_dumped. Qed.
Print Assumptions C01_polarity_of_is_dumped.
