(* C11 — parsing is total and prompt.  For every byte string: the scanner model and the LR driver
   model (run over the tables regenerated from the current parser.y.go) stop within a number of
   steps linear in the length of the text, with a list of statements or an error.
   Proofs: proofs/ScanProofs.v, proofs/LRProof.v (generic, by certificate), proofs/LRCertInst.v
   (the certificate check, by computation), proofs/ParseTotal.v. *)
Require Import Grits.Base Grits.ModeDefs Grits.Modes Grits.STypes Grits.Forms Grits.Infer Grits.Tokens Grits.Scan
               Grits.gen.LRTables Grits.gen.LRCert Grits.LR Grits.Actions Grits.Expand
               Grits.proofs.ScanProofs Grits.proofs.LRCheck Grits.proofs.LRProof Grits.proofs.LRCertInst
               Grits.spec.ScanSpec Grits.proofs.ScanCover Grits.proofs.ParseTotal Grits.proofs.LRSound Grits.proofs.LRSoundInst Grits.proofs.ActionsTyped.
Local Open Scope Z_scope.

(* scanner: never out of fuel (fuel = length + 1), for every byte string *)
Theorem C11_scan_total : forall s, scan_all s <> ScanHang.
Proof. exact scan_total. Qed.

(* scanner: at most length + 1 calls of Scan, hence at most length + 1 tokens *)
Theorem C11_scan_steps_linear : forall s, (scan_iters s <= String.length s + 1)%nat.
Proof. exact scan_iters_linear. Qed.

Theorem C11_scan_tokens_linear : forall s l, scan_all s = Tokens l -> (length l <= String.length s + 1)%nat.
Proof. exact scan_tokens_linear. Qed.

(* scanner: bytes read.  One call of Scan reads every byte of the span it consumes once, re-reads at
   most two bytes it had put back and probes the end of the input at most once (scan_reads counts
   |span| + 3 per call of the instrumented scanner, whose spans are proved to tile the text) *)
Theorem C11_scan_reads_linear : forall s l u, scan_items s = Some (l, u) -> (scan_reads l <= 4 * String.length s + 3)%nat.
Proof. exact scan_reads_linear. Qed.

(* LR driver: for every token list and every semantic-value algebra, C * n + Phi0 + 1 iterations suffice *)
Theorem C11_lr_terminates : forall (V : Type) (tok_val : tk * string -> V) (ra : Z -> list V -> option V)
    (v0 : V) (toks : list (tk * string)) (fuel : nat),
  certC * Z.of_nat (length toks) + nthZ wTop 0 + 1 <= Z.of_nat fuel ->
  run V tok_val ra fuel [(0, v0)] toks <> LROutOfFuel.
Proof. exact lr_terminates_inst. Qed.

Theorem C11_lr_fuel_enough : forall toks,
  parse_tokens sval VUnit tok_val reduce_action (lr_fuel (length toks)) toks <> LROutOfFuel.
Proof. exact lr_fuel_enough. Qed.

(* scan + parse of any text: statements or an error, never a hang; total fuel linear in the text *)
Theorem C11_parse_no_hang : forall s w, parse_statements s <> PHang w.
Proof. exact parse_statements_no_hang. Qed.

Theorem C11_parse_fuel_linear : forall s toks, scan_all s = Tokens toks ->
  (lr_fuel (length toks) <= 64 * (String.length s + 3))%nat.
Proof. exact parse_fuel_linear. Qed.

(* ParseString = the above followed by expandProcesses (structural) and SetModalityTypeDef: the only
   remaining source of a hang is mode inference, whose fuel theorem belongs to C16 *)
Theorem C11_parse_string_hang_only_in_infer : forall s w, parse_string s = PHang w ->
  exists l procs assumed funs tys, parse_statements s = POk l /\
    expand1 l [] [] [] [] = POk (procs, assumed, funs, tys) /\ set_modality_typedefs tys = Hang w.
Proof. exact parse_string_hang_only_in_infer. Qed.

(* the error-recovery loop aborts: no state on a reachable stack shifts `error` *)
Theorem C11_error_recovery_aborts : forall V (stk : list (Z * V)), lr_inv stk ->
  Forall (fun s => err_shift s = false) (map fst stk).
Proof. exact error_recovery_aborts. Qed.

(* no index-out-of-range panic in the driver: all table accesses on reachable configurations are in range *)
Theorem C11_table_indices_in_range : forall V (stk : list (Z * V)) inp st v rest,
  lr_inv stk -> stk = (st, v) :: rest ->
  action_c st (lookahead inp) = Some (action st (lookahead inp)) /\
  match action st (lookahead inp) with
  | AReduce p =>
    (exists k, nth_c tR2 p = Some k /\ 0 <= k) /\
    match skipn (rlen p) stk with
    | (s0, _) :: _ => goto_c s0 p = Some (goto s0 p)
    | [] => True
    end
  | _ => True
  end.
Proof. exact table_indices_in_range. Qed.

(* scan + parse of any text returns statements or an error: never a hang, and never a panic of the
   model (the semantic actions never meet a value of the wrong shape, the accepted value is a
   statement list) *)
Theorem C11_parse_statements_result : forall s,
  (exists l, parse_statements s = POk l) \/ (exists w, parse_statements s = PErr w).
Proof. exact parse_statements_result. Qed.

Theorem C11_no_action_error : forall fuel stk inp p,
  is_path tE (map fst stk) -> stack_typed stk -> run sval tok_val reduce_action fuel stk inp <> LRActionError p.
Proof. exact run_no_action_error. Qed.

Print Assumptions C11_scan_total.
Print Assumptions C11_parse_statements_result.
Print Assumptions C11_no_action_error.
Print Assumptions C11_scan_steps_linear.
Print Assumptions C11_scan_reads_linear.
Print Assumptions C11_scan_tokens_linear.
Print Assumptions C11_lr_terminates.
Print Assumptions C11_lr_fuel_enough.
Print Assumptions C11_parse_no_hang.
Print Assumptions C11_parse_fuel_linear.
Print Assumptions C11_parse_string_hang_only_in_infer.
Print Assumptions C11_error_recovery_aborts.
Print Assumptions C11_table_indices_in_range.
