(* C08 — type equality is equi-recursive equality and always terminates.
   Stated for TcDeps.eq_ty / TcDeps.equal_type, the model of types.EqualType that the typechecker
   model calls (memo keyed by printed strings, two-level fuel), with
     run D s t := TcDeps.eq_ty (TcDeps.eq_fuel D s t) D (S (tsize s + tsize t)) s t [].
   Hypotheses: wf_env D / wf_ty D t (EqualWF.v) — boolean restatements of what the parser and
   SanityChecksTypeDefinitions guarantee; the correspondence run evaluates wf_env on every
   environment the real checks accept.  Bisim: spec/TypEq.v. *)
Require Import Grits.Base Grits.ModeDefs Grits.Modes Grits.STypes Grits.Infer Grits.Equal Grits.EqualWF.
Require Grits.TcDeps.
Require Import Grits.spec.TypEq Grits.proofs.TypEqFacts Grits.proofs.EqualWFFacts Grits.proofs.EqualBridge
               Grits.proofs.EqualSound Grits.proofs.PrintProofs Grits.proofs.EqualProofs.

(* termination: for EVERY environment and every pair of types (no well-formedness needed) *)
Theorem equal_terminates : forall D s t, exists b M,
  TcDeps.eq_ty (TcDeps.eq_fuel D s t) D (S (tsize s + tsize t)) s t [] = Ok (b, M).
Proof. exact EqualProofs.equal_terminates. Qed.

(* ... and with any outer fuel from eq_fuel upwards (the correspondence driver shares one fuel
   between all pairs of a pool) *)
Theorem equal_terminates_ge : forall D s t K, TcDeps.eq_fuel D s t <= K ->
  exists b M, TcDeps.eq_ty K D (S (tsize s + tsize t)) s t [] = Ok (b, M).
Proof. exact EqualProofs.equal_terminates_ge. Qed.

(* whenever a run returns, with whatever fuel and initial memo, its answer is right *)
Theorem eq_ty_sound_any : forall D k n s t M,
  wf_env D = true -> wf_ty D s = true -> wf_ty D t = true ->
  TcDeps.eq_ty k D n s t [] = Ok (true, M) -> Bisim D s t.
Proof. exact EqualProofs.eq_ty_sound_any. Qed.
Theorem eq_ty_complete_any : forall D k n s t M0 b M,
  wf_env D = true -> wf_ty D s = true -> wf_ty D t = true ->
  Bisim D s t -> TcDeps.eq_ty k D n s t M0 = Ok (b, M) -> b = true.
Proof. exact EqualProofs.eq_ty_complete_any. Qed.

Theorem equal_type_total : forall D s t, exists b, TcDeps.equal_type D s t = Ok b.
Proof. exact EqualProofs.equal_type_total. Qed.

Theorem equal_sound : forall D s t M,
  wf_env D = true -> wf_ty D s = true -> wf_ty D t = true ->
  TcDeps.eq_ty (TcDeps.eq_fuel D s t) D (S (tsize s + tsize t)) s t [] = Ok (true, M) -> Bisim D s t.
Proof. exact EqualProofs.equal_sound. Qed.

Theorem equal_complete : forall D s t,
  wf_env D = true -> wf_ty D s = true -> wf_ty D t = true ->
  Bisim D s t -> exists M, TcDeps.eq_ty (TcDeps.eq_fuel D s t) D (S (tsize s + tsize t)) s t [] = Ok (true, M).
Proof. exact EqualProofs.equal_complete. Qed.

(* the verdict is exactly bisimilarity of the infinite unfoldings *)
Theorem equal_type_iff : forall D s t,
  wf_env D = true -> wf_ty D s = true -> wf_ty D t = true ->
  (TcDeps.equal_type D s t = Ok true <-> Bisim D s t) /\ (TcDeps.equal_type D s t = Ok false <-> ~ Bisim D s t).
Proof. exact EqualProofs.equal_type_iff. Qed.

(* the memo key determines the pair (uses C15: printing is injective) *)
Theorem key_injective : forall D s t s' t',
  wf_ty D s = true -> wf_ty D t = true -> wf_ty D s' = true -> wf_ty D t' = true ->
  memo_key s t = memo_key s' t' -> s = s' /\ t = t'.
Proof. exact PrintProofs.key_injective. Qed.

Theorem equal_refl : forall D, wf_env D = true -> forall t, wf_ty D t = true -> TcDeps.equal_type D t t = Ok true.
Proof. exact EqualProofs.equal_refl. Qed.

Theorem equal_sym : forall D, wf_env D = true -> forall s t, wf_ty D s = true -> wf_ty D t = true ->
  TcDeps.equal_type D s t = TcDeps.equal_type D t s.
Proof. exact EqualProofs.equal_sym. Qed.

Theorem equal_trans : forall D, wf_env D = true -> forall s u t,
  wf_ty D s = true -> wf_ty D u = true -> wf_ty D t = true ->
  TcDeps.equal_type D s u = Ok true -> TcDeps.equal_type D u t = Ok true -> TcDeps.equal_type D s t = Ok true.
Proof. exact EqualProofs.equal_trans. Qed.

Theorem equal_unfold : forall D, wf_env D = true -> forall x m d,
  wf_ty D (TName x m) = true -> tlookup D x = Some d -> TcDeps.equal_type D (TName x m) (td_body d) = Ok true.
Proof. exact EqualProofs.equal_unfold. Qed.

Theorem equal_branch_order : forall D, wf_env D = true -> forall bs cs m,
  (forall l, find_br l bs = find_br l cs) ->
  (wf_ty D (TPlus bs m) = true -> wf_ty D (TPlus cs m) = true -> TcDeps.equal_type D (TPlus bs m) (TPlus cs m) = Ok true) /\
  (wf_ty D (TWith bs m) = true -> wf_ty D (TWith cs m) = true -> TcDeps.equal_type D (TWith bs m) (TWith cs m) = Ok true).
Proof. exact (fun D HD bs cs m Hp => conj (EqualProofs.equal_branch_order_plus D HD bs cs m Hp) (EqualProofs.equal_branch_order_with D HD bs cs m Hp)). Qed.

(* Bisim is an equivalence, invariant under unfolding (on productive sets of types) *)
Theorem bisim_refl : forall D, wf_env D = true -> forall t, wf_ty D t = true -> Bisim D t t.
Proof. exact (fun D HD t Wt => Bisim_refl D (WT D) (WT_productive D HD) t Wt). Qed.
Theorem bisim_sym : forall D s t, Bisim D s t -> Bisim D t s.
Proof. exact Bisim_sym. Qed.
Theorem bisim_trans : forall D s u t, Bisim D s u -> Bisim D u t -> Bisim D s t.
Proof. exact Bisim_trans. Qed.

(* TcDeps.eq_ty is the function the proofs are organised around *)
Theorem eq_ty_bridge : forall D k n s t M, TcDeps.eq_ty k D n s t M = Equal.eq_ty k D n s t M.
Proof. exact EqualBridge.eq_ty_bridge. Qed.

Print Assumptions equal_terminates.
Print Assumptions equal_terminates_ge.
Print Assumptions eq_ty_sound_any.
Print Assumptions eq_ty_complete_any.
Print Assumptions equal_sound.
Print Assumptions equal_complete.
Print Assumptions equal_type_iff.
Print Assumptions equal_sym.
Print Assumptions equal_trans.
Print Assumptions equal_branch_order.
