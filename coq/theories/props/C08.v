(* C08 — placeholder while the proofs are being written (examples only) *)
Require Import Grits.Base Grits.ModeDefs Grits.Modes Grits.STypes Grits.Equal.
Example c08_smoke : equal_type [] (TUnit Rep) (TUnit Rep) = Ok true.
Proof. vm_compute. reflexivity. Qed.
Print Assumptions c08_smoke.
