(* C19 — runs are isolated: earlier programs never influence later ones.
   Statements about Host.host_runs for ALL histories, ALL initial host states (leftover goroutines of
   earlier runs), ALL interleavings of those leftovers, schedules and fuels. *)
From stdpp Require Import gmap.
Require Import Grits.Base Grits.Runtime Grits.Host Grits.proofs.HostProofs.
Require Import Grits.GlobalsDefs Grits.gen.Globals Grits.GlobalsDiscipline Grits.proofs.GlobalsProofs
               Grits.HostGlobals Grits.proofs.HostGlobalsProofs.

Theorem C19_isolated : forall pick fuel h hist i ws,
  nth_error hist i = Some ws ->
  nth_error (fst (host_runs pick fuel h hist)) i = Some (fst (host_run pick fuel [] fresh_host (snd ws))).
Proof. exact isolated. Qed.

Theorem C19_host_output : forall pick fuel h hist,
  h_output (snd (host_runs pick fuel h hist)) =
  h_output h ++ concat (map (fun ws => printed (outcome_alone pick fuel (snd ws))) hist).
Proof. exact host_output. Qed.

Theorem C19_leftover_prints_nothing : forall l, snd (leftover_step l) = [].
Proof. exact leftover_prints_nothing. Qed.

(* non-vacuity: a history with an accepted, a rejected and an unparseable program *)
Example C19_example :
  fst (host_runs (fun _ _ => 0) 1000 fresh_host
        [([], "prc[a] : 1 = print one; close self"); ([], "prc[a] : 1 * 1 = close self"); ([0], "prc[a");
         ([0; 0], "prc[a] : 1 = print one; close self")])
  = [ORan ["one"]; OReject; OParseErr; ORan ["one"]].
Proof. vm_compute. reflexivity. Qed.

(* ---- package-level state.  gen/Globals.v is REGENERATED from the Go source on every run (go/ast +
   go/types: every package-level var of every package, every use of one classified URead /
   UIndexRead / UWrite / UEscape).  The host of HostGlobals carries a store of package-level
   variables that runs (and leftover goroutines) may read and may update only through mutating rows
   of the table; all that is assumed of the pipeline is that it is the model when started from the
   initial store. *)

(* no package-level variable of a pipeline package is mutable state (finite; by computation) *)
Theorem C19_globals_immutable : globals_immutable_b = true.
Proof. exact globals_immutable. Qed.

Theorem C19_pipeline_vars_only_read : forall u,
  In u global_uses -> is_pipeline_pkg (u_vpkg u) = true -> init_context u = false ->
  u_kind u = URead \/ u_kind u = UIndexRead.
Proof. exact pipeline_vars_only_read. Qed.

Theorem C19_pipeline_fns_only_read_extern : forall u,
  In u extern_uses -> is_pipeline_pkg (u_fpkg u) = true -> init_context u = false ->
  u_kind u = URead \/ u_kind u = UIndexRead.
Proof. exact pipeline_fns_only_read_extern. Qed.

Theorem C19_pipeline_fns_use_no_foreign_var : forall u,
  In u global_uses -> is_pipeline_pkg (u_fpkg u) = true -> is_pipeline_pkg (u_vpkg u) = true.
Proof. exact pipeline_fns_use_no_foreign_var. Qed.

(* isolation of a host WITH package-level state, for any table of uses that satisfies the discipline *)
Theorem C19_isolated_if_table_immutable : forall (V : Type) (tbl : list guse),
  table_immutable tbl = true ->
  forall pick fuel (pipe : string -> gprog V (outcome1 * list leftover)) (left : list nat -> gprog V unit) (st0 : gstore V),
  (forall s, permitted tbl (pipe s)) -> (forall w, permitted tbl (left w)) ->
  (forall s, fst (gexec st0 (pipe s)) = run_alone pick fuel s) ->
  forall h hist i ws, nth_error hist i = Some ws ->
  nth_error (fst (ghost_runs pipe left (h, st0) hist)) i = Some (fst (host_run pick fuel [] fresh_host (snd ws))).
Proof. exact @isolated_if_table_immutable. Qed.

(* ... and for the table of the code as it is now, the premise being discharged by C19_globals_immutable *)
Theorem C19_isolated_globals : forall (V : Type) pick fuel
    (pipe : string -> gprog V (outcome1 * list leftover)) (left : list nat -> gprog V unit) (st0 : gstore V),
  (forall s, permitted pipeline_uses (pipe s)) -> (forall w, permitted pipeline_uses (left w)) ->
  (forall s, fst (gexec st0 (pipe s)) = run_alone pick fuel s) ->
  forall h hist i ws, nth_error hist i = Some ws ->
  nth_error (fst (ghost_runs pipe left (h, st0) hist)) i = Some (fst (host_run pick fuel [] fresh_host (snd ws))).
Proof. exact @isolated_globals. Qed.

Theorem C19_globals_store_never_changes : forall (V : Type) pick fuel
    (pipe : string -> gprog V (outcome1 * list leftover)) (left : list nat -> gprog V unit) (st0 : gstore V),
  (forall s, permitted pipeline_uses (pipe s)) -> (forall w, permitted pipeline_uses (left w)) ->
  (forall s, fst (gexec st0 (pipe s)) = run_alone pick fuel s) ->
  forall h hist,
  ghost_runs pipe left (h, st0) hist = (fst (host_runs pick fuel h hist), (snd (host_runs pick fuel h hist), st0)).
Proof. exact @globals_store_never_changes. Qed.

(* non-vacuity of the table: the variables one expects are there, with the kinds and uses one expects *)
Example C19_table_contents :
  In (mkGvar "types" "PolarityMap" "map[Polarity]string" GMap IComposite true) globals /\
  In (mkGvar "process" "RuleString" "map[Rule]string" GMap IComposite true) globals /\
  In (mkGvar "parser" "gritsDebug" "int" GScalar ILiteral true) globals /\
  In (mkGvar "parser" "gritsErrorVerbose" "bool" GScalar IIdent true) globals /\
  (forall t, In t ["gritsExca"; "gritsAct"; "gritsPact"; "gritsPgo"; "gritsR1"; "gritsR2"; "gritsChk"; "gritsDef";
                   "gritsTok1"; "gritsTok2"; "gritsTok3"; "gritsToknames"] ->
     existsb (fun g => String.eqb (g_pkg g) "parser" && String.eqb (g_name g) t &&
                       match g_kind g with GArray => true | _ => false end) globals = true /\
     existsb (fun u => String.eqb (u_var u) t && match u_kind u with UIndexRead => true | _ => false end) global_uses = true) /\
  existsb (fun u => String.eqb (u_var u) "PolarityMap" && String.eqb (u_fn u) "Name.String" &&
                    match u_kind u with UIndexRead => true | _ => false end) global_uses = true /\
  20 <= length pipeline_globals /\ 50 <= length pipeline_uses.
Proof. exact table_contents. Qed.

(* non-vacuity of the premise: with the one UWrite row of a memo table (seeded change C19-1) there is a
   permitted pipeline that is the model in every fresh process and is NOT isolated *)
Example C19_isolation_needs_immutable_globals :
  table_immutable memo_tbl = false /\
  (forall pick fuel s, permitted memo_tbl (memo_pipe pick fuel s)) /\
  (forall pick fuel s, fst (gexec (fun _ => 0) (memo_pipe pick fuel s)) = run_alone pick fuel s) /\
  let pick := fun _ _ => 0 in
  let prog := "prc[a] : 1 = print one; close self" in
  fst (ghost_runs (memo_pipe pick 1000) (fun _ => GRet tt) (fresh_host, fun _ => 0) [([], prog); ([], prog)])
  = [ORan ["one"]; OReject]
  /\ fst (host_run pick 1000 [] fresh_host prog) = ORan ["one"].
Proof. exact memo_counterexample. Qed.

Print Assumptions C19_isolated.
Print Assumptions C19_host_output.
Print Assumptions C19_leftover_prints_nothing.
Print Assumptions C19_globals_immutable.
Print Assumptions C19_pipeline_vars_only_read.
Print Assumptions C19_pipeline_fns_only_read_extern.
Print Assumptions C19_pipeline_fns_use_no_foreign_var.
Print Assumptions C19_isolated_if_table_immutable.
Print Assumptions C19_isolated_globals.
Print Assumptions C19_globals_store_never_changes.
