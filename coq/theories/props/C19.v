(* C19 — runs are isolated: earlier programs never influence later ones.
   Statements about Host.host_runs for ALL histories, ALL initial host states (leftover goroutines of
   earlier runs), ALL interleavings of those leftovers, schedules and fuels. *)
From stdpp Require Import gmap.
Require Import Grits.Base Grits.Runtime Grits.Host Grits.proofs.HostProofs.

Theorem C19_isolated : forall pick fuel h hist i ws,
  nth_error hist i = Some ws ->
  nth_error (fst (host_runs pick fuel h hist)) i = Some (fst (host_run pick fuel [] fresh_host (snd ws))).
Proof. exact isolated. Qed.

Theorem C19_host_output : forall pick fuel h hist,
  h_output (snd (host_runs pick fuel h hist)) =
  h_output h ++ concat (map (fun ws => printed (outcome_alone pick fuel (snd ws))) hist).
Proof. exact host_output. Qed.

Theorem C19_leftover_prints_nothing : forall l, snd (leftover_step l) = [].
Proof. exact leftover_prints_nothing. Qed.

(* non-vacuity: a history with an accepted, a rejected and an unparseable program *)
Example C19_example :
  fst (host_runs (fun _ _ => 0) 1000 fresh_host
        [([], "prc[a] : 1 = print one; close self"); ([], "prc[a] : 1 * 1 = close self"); ([0], "prc[a");
         ([0; 0], "prc[a] : 1 = print one; close self")])
  = [ORan ["one"]; OReject; OParseErr; ORan ["one"]].
Proof. vm_compute. reflexivity. Qed.

Print Assumptions C19_isolated.
Print Assumptions C19_host_output.
Print Assumptions C19_leftover_prints_nothing.
