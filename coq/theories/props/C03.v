(* C03 — determinism: the observable outcome (the multiset of printed labels, and whether the run
   completes) does not depend on the schedule.
   What is proved here, for the model Runtime.v of process/transition.go + runtime.go:
   * commutation (`C03_diamond`): any two enabled choices (Run / Rendezvous / Control, any mode)
     that are independent — no common goroutine, disjoint footprints — can be taken in either order
     and lead to configurations with the SAME process table and channel table (Leibniz equality) and
     permuted output; the asynchronous and synchronous forms of DESIGN.md are corollaries;
     a sender and a receiver on one channel are never both enabled in asynchronous mode;
   * namespace hygiene `ns_ok` is an invariant from every initial configuration;
   * `C03_determinism_partial`: under an invariant that provides independence of any two enabled
     choices (Topo + Dual) and absence of run-time errors (C01), if one run of the interpreter
     reaches quiescence, every run does, with the same processes, channels and print multiset;
     all maximal runs have the same length.
   The hypotheses that remain are premises of the theorems below (nothing is assumed globally). *)
From stdpp Require Import gmap strings sorting.
Require Import Grits.Base Grits.Forms Grits.Expand Grits.TcTop Grits.Runtime.
Require Import Grits.RuntimeFootprint Grits.proofs.RuntimeFacts Grits.proofs.Diamond Grits.proofs.Determinism Grits.proofs.AsyncSync Grits.proofs.RuntimeCheckFacts Grits.proofs.ForkJoin Grits.proofs.DeterminismExamples.
Require Import Grits.Tc Grits.spec.RtTyping Grits.spec.Topo Grits.proofs.RtSafety Grits.proofs.RtInit Grits.proofs.RtTheorems Grits.proofs.DeterminismTyped Grits.proofs.TopoLin Grits.proofs.TopoStep Grits.proofs.TopoReach Grits.proofs.InitLinear.
Require Import Grits.spec.SynOk Grits.proofs.RtTcSyn Grits.proofs.RtTheoremsTc Grits.proofs.DeterminismTc.
Require Import Grits.proofs.LinBridge Grits.proofs.InitAccept Grits.proofs.DeterminismAccept Grits.proofs.TopoStepExt Grits.proofs.TopoFinish Grits.proofs.TopoDup Grits.proofs.InvAll Grits.proofs.DeterminismAll Grits.proofs.AsyncSync Grits.proofs.InvNP Grits.proofs.PlainNP Grits.proofs.DeterminismNP Grits.proofs.Balanced Grits.proofs.RtTheoremsTc Grits.proofs.DeterminismFinal Grits.proofs.NPConfluence Grits.proofs.NPCfree Grits.proofs.NPJoin Grits.proofs.NPJoinA Grits.proofs.NPJoinBC Grits.proofs.NPDeterminism Grits.proofs.DeterminismNPCfree Grits.proofs.NPSync Grits.proofs.NPFlush Grits.proofs.NPNegFwd Grits.proofs.NPAgreeNeg Grits.proofs.NPAgreeNegConv Grits.proofs.NPPosFwd Grits.proofs.RtSafetyNP Grits.proofs.StepErrors Grits.ModeDefs Grits.Modes Grits.STypes Grits.Subst.

Theorem C03_step_is_move : forall md D F c ch, step md D F c ch = sres_of c (move_of md D F c ch).
Proof. exact step_move. Qed.

Theorem C03_step_procs_frame : forall md D F c ch c' r,
  step md D F c ch = SStep c' -> r ∉ movers ch ->
  procs c' !! r = procs c !! r \/
  exists p pp n, p ∈ movers ch /\ procs c !! p = Some pp /\ r = p ++ [n] /\ (pr_next pp <= n)%nat.
Proof. exact step_procs_frame. Qed.

Theorem C03_step_chans_frame : forall md D F c ch c' k,
  step md D F c ch = SStep c' -> k ∉ footprint_ch md D c ch ->
  chans c' !! k = chans c !! k \/
  exists p pp n, p ∈ movers ch /\ procs c !! p = Some pp /\ k = p ++ [n] /\ (pr_next pp <= n)%nat.
Proof. exact step_chans_frame. Qed.

Theorem C03_out_only_grows : forall md D F c ch c', step md D F c ch = SStep c' -> out c `suffix_of` out c'.
Proof. exact step_out_suffix. Qed.

Theorem C03_ns_ok_init : forall p, ns_ok (init_config p).
Proof. exact ns_ok_init. Qed.

Theorem C03_ns_ok_step : forall md D F c ch c', ns_ok c -> step md D F c ch = SStep c' -> ns_ok c'.
Proof. exact ns_ok_step. Qed.

Theorem C03_diamond : forall md D F c a b c1 c2,
  ns_ok c -> indep md D c a b ->
  step md D F c a = SStep c1 -> step md D F c b = SStep c2 ->
  exists d1 d2, step md D F c1 b = SStep d1 /\ step md D F c2 a = SStep d2 /\ cfg_equiv d1 d2.
Proof. exact diamond. Qed.

Theorem C03_diamond_async : forall D F c p q c1 c2,
  p ≠ q -> ns_ok c ->
  step Async D F c (Run p) = SStep c1 -> step Async D F c (Run q) = SStep c2 ->
  footprint Async D c p ## footprint Async D c q ->
  (forall k, k ∈ closes Async D c (Run p) ++ closes Async D c (Run q) -> is_Some (chans c !! k)) ->
  exists d1 d2, step Async D F c1 (Run q) = SStep d1 /\ step Async D F c2 (Run p) = SStep d2 /\ cfg_equiv d1 d2.
Proof. exact diamond_async. Qed.

Theorem C03_async_send_recv_exclusive : forall D F c p q pp qq k m c1 c2,
  procs c !! p = Some pp -> procs c !! q = Some qq ->
  action_of Async D pp = ASend k m -> action_of Async D qq = ARecv k ->
  step Async D F c (Run p) = SStep c1 -> step Async D F c (Run q) = SStep c2 -> False.
Proof. exact async_send_recv_exclusive. Qed.

Theorem C03_diamond_sync_rendezvous : forall D F c s1 r1 s2 r2 c1 c2,
  ns_ok c -> {[s1; r1]} ## ({[s2; r2]} : gset pid) ->
  step Sync D F c (Rendezvous s1 r1) = SStep c1 -> step Sync D F c (Rendezvous s2 r2) = SStep c2 ->
  footprint_ch Sync D c (Rendezvous s1 r1) ## footprint_ch Sync D c (Rendezvous s2 r2) ->
  (forall k, k ∈ closes Sync D c (Rendezvous s1 r1) ++ closes Sync D c (Rendezvous s2 r2) -> is_Some (chans c !! k)) ->
  exists d1 d2, step Sync D F c1 (Rendezvous s2 r2) = SStep d1 /\ step Sync D F c2 (Rendezvous s1 r1) = SStep d2 /\
                cfg_equiv d1 d2.
Proof. exact diamond_sync_rendezvous. Qed.

Theorem C03_diamond_sync_rendezvous_run : forall D F c s r p c1 c2,
  ns_ok c -> p ≠ s -> p ≠ r ->
  step Sync D F c (Rendezvous s r) = SStep c1 -> step Sync D F c (Run p) = SStep c2 ->
  footprint_ch Sync D c (Rendezvous s r) ## footprint Sync D c p ->
  (forall k, k ∈ closes Sync D c (Rendezvous s r) ++ closes Sync D c (Run p) -> is_Some (chans c !! k)) ->
  exists d1 d2, step Sync D F c1 (Run p) = SStep d1 /\ step Sync D F c2 (Rendezvous s r) = SStep d2 /\ cfg_equiv d1 d2.
Proof. exact diamond_sync_rendezvous_run. Qed.

Theorem C03_error_stable : forall md D F c a b w e c',
  ns_ok c -> indep_read md D c a b ->
  step md D F c a = SError w e -> step md D F c b = SStep c' -> step md D F c' a = SError w e.
Proof. exact error_stable. Qed.

(* "at most one sender and one receiver per channel among the next actions" gives independence *)
Theorem C03_async_discipline_indep : forall D F c a b c1 c2,
  async_discipline D c -> a ≠ b ->
  step Async D F c a = SStep c1 -> step Async D F c b = SStep c2 -> indep Async D c a b.
Proof. exact async_discipline_indep. Qed.

Theorem C03_sync_discipline_indep : forall D F c a b c1 c2,
  sync_discipline D F c -> a ≠ b ->
  step Sync D F c a = SStep c1 -> step Sync D F c b = SStep c2 -> indep Sync D c a b.
Proof. exact sync_discipline_indep. Qed.

(* determinism under an invariant I: the three premises are the remaining hypotheses *)
Theorem C03_determinism_partial : forall (md : exec_mode) (D : STypes.tenv) (F : list fundef) (I : config -> Prop),
  (forall c ch c', I c -> step md D F c ch = SStep c' -> I c') ->
  (forall c a b c1 c2, I c -> a ≠ b -> step md D F c a = SStep c1 -> step md D F c b = SStep c2 -> indep md D c a b) ->
  (forall c a b w e c', I c -> step md D F c a = SError w e -> step md D F c b = SStep c' ->
     exists w' e', step md D F c' a = SError w' e') ->
  forall c pick1 pick2 f1 f2 t1,
    I c -> ns_ok c -> exec_run f1 pick1 md D F c = RQuiescent t1 -> (f1 <= f2)%nat ->
    exists t2, exec_run f2 pick2 md D F c = RQuiescent t2 /\ cfg_equiv t2 t1 /\ labels t2 ≡ₚ labels t1.
Proof. exact determinism_partial. Qed.

(* the same with "no run-time error" (C01) as third premise *)
Theorem C03_determinism_partial_safe : forall (md : exec_mode) (D : STypes.tenv) (F : list fundef) (I : config -> Prop),
  (forall c ch c', I c -> step md D F c ch = SStep c' -> I c') ->
  (forall c a b c1 c2, I c -> a ≠ b -> step md D F c a = SStep c1 -> step md D F c b = SStep c2 -> indep md D c a b) ->
  (forall c ch who e, I c -> step md D F c ch ≠ SError who e) ->
  forall c pick1 pick2 f1 f2 t1,
    I c -> ns_ok c -> exec_run f1 pick1 md D F c = RQuiescent t1 -> (f1 <= f2)%nat ->
    exists t2, exec_run f2 pick2 md D F c = RQuiescent t2 /\ cfg_equiv t2 t1 /\ labels t2 ≡ₚ labels t1.
Proof. exact determinism_partial_safe. Qed.

(* dying with a run-time error is schedule independent as well *)
Theorem C03_error_excludes_completion : forall (md : exec_mode) (D : STypes.tenv) (F : list fundef) (I : config -> Prop),
  (forall c ch c', I c -> step md D F c ch = SStep c' -> I c') ->
  (forall c a b c1 c2, I c -> a ≠ b -> step md D F c a = SStep c1 -> step md D F c b = SStep c2 -> indep md D c a b) ->
  (forall c a b w e c', I c -> step md D F c a = SError w e -> step md D F c b = SStep c' ->
     exists w' e', step md D F c' a = SError w' e') ->
  forall c pick1 pick2 f1 f2 t1 who e t2,
    I c -> ns_ok c -> exec_run f1 pick1 md D F c = RError t1 who e ->
    exec_run f2 pick2 md D F c = RQuiescent t2 -> False.
Proof. exact error_excludes_completion. Qed.

Theorem C03_maximal_runs_same_length : forall (md : exec_mode) (D : STypes.tenv) (F : list fundef) (I : config -> Prop),
  (forall c ch c', I c -> step md D F c ch = SStep c' -> I c') ->
  (forall c a b c1 c2, I c -> a ≠ b -> step md D F c a = SStep c1 -> step md D F c b = SStep c2 -> indep md D c a b) ->
  forall c n m t t',
    I c -> ns_ok c -> nsteps (stp md D F) n c t -> quiescent md D F t ->
    nsteps (stp md D F) m c t' -> quiescent md D F t' -> n = m /\ cfg_equiv t' t.
Proof. exact maximal_runs_same_length. Qed.

Theorem C03_no_longer_run : forall (md : exec_mode) (D : STypes.tenv) (F : list fundef) (I : config -> Prop),
  (forall c ch c', I c -> step md D F c ch = SStep c' -> I c') ->
  (forall c a b c1 c2, I c -> a ≠ b -> step md D F c a = SStep c1 -> step md D F c b = SStep c2 -> indep md D c a b) ->
  forall c n m t c',
    I c -> ns_ok c -> nsteps (stp md D F) n c t -> quiescent md D F t -> nsteps (stp md D F) m c c' -> (m <= n)%nat.
Proof. exact no_longer_run. Qed.

(* asynchronous vs synchronous polarized mode: every maximal synchronous run is matched by a maximal
   asynchronous run with the same output (no hypothesis besides empty buffers at the start, which
   holds for every initial configuration) ... *)
Theorem C03_bufs_empty_init : forall p, bufs_empty (init_config p).
Proof. exact bufs_empty_init. Qed.

Theorem C03_sync_run_matched : forall D F n c t,
  bufs_empty c -> nsteps (stp Sync D F) n c t -> quiescent Sync D F t ->
  exists n' t', nsteps (stp Async D F) n' c t' /\ quiescent Async D F t' /\ out t' = out t.
Proof. exact sync_run_matched. Qed.

(* ... hence, under the invariant hypotheses for the ASYNCHRONOUS mode only, every asynchronous run
   prints the multiset that a completed synchronous run printed *)
Theorem C03_async_sync_agree_partial : forall (D : STypes.tenv) (F : list fundef) (I : config -> Prop),
  (forall c ch c', I c -> step Async D F c ch = SStep c' -> I c') ->
  (forall c a b c1 c2, I c -> a ≠ b -> step Async D F c a = SStep c1 -> step Async D F c b = SStep c2 -> indep Async D c a b) ->
  (forall c a b w e c', I c -> step Async D F c a = SError w e -> step Async D F c b = SStep c' ->
     exists w' e', step Async D F c' a = SError w' e') ->
  forall c pick1 f1 t1,
    I c -> ns_ok c -> bufs_empty c -> exec_run f1 pick1 Sync D F c = RQuiescent t1 ->
    exists n, forall pick2 f2, (n < f2)%nat ->
      exists t2, exec_run f2 pick2 Async D F c = RQuiescent t2 /\ labels t2 ≡ₚ labels t1.
Proof. exact async_sync_agree_partial. Qed.

(* the executable check run by the correspondence driver (`compat-<mode>-<seed>`) on every
   configuration the model visits is sound for the two remaining hypotheses *)
Theorem C03_check_sound : forall md D F c,
  bad_pairs md D F c = [] ->
  (forall a b c1 c2, a ≠ b -> step md D F c a = SStep c1 -> step md D F c b = SStep c2 -> indep md D c a b) /\
  (forall a b w e c2, step md D F c a = SError w e -> step md D F c b = SStep c2 -> indep_read md D c a b).
Proof. exact check_sound. Qed.

Theorem C03_exec_check_run : forall fuel pick md D F c st,
  (exec_check fuel pick md D F c st).1 = exec_run fuel pick md D F c.
Proof. exact exec_check_run. Qed.

(* TYPED: the hypotheses of C03_determinism_partial discharged from the run-time typing of C01 and the
   forest invariant Topo.  For a typed forest any two distinct enabled choices are independent ... *)
Theorem C03_typed_async_discipline : forall D F teq, teq_laws D teq -> funs_typed D F teq ->
  forall Δ c, cfg_typed D F teq Δ c -> Topo c -> async_discipline D c.
Proof. exact typed_async_discipline. Qed.

Theorem C03_typed_sync_discipline : forall D F teq, teq_laws D teq -> funs_typed D F teq ->
  forall Δ c, cfg_typed D F teq Δ c -> Topo c -> bufs_empty c -> sync_discipline D F c.
Proof. exact typed_sync_discipline. Qed.

(* ... hence determinism for every accepted closed program in both polarized modes.  The three
   premises are those of C01 / C02 (proofs/RtTheorems.v): type equality satisfies teq_laws, the
   checker's annotated output is typed in the run-time judgement, every reachable configuration is
   a forest (Topo). *)
Theorem C03_determinism_typed : forall (teqD : STypes.tenv -> STypes.sty -> STypes.sty -> Prop),
  (forall p p', typecheck p = Accept p' -> teq_laws (p_types p') (teqD (p_types p'))) ->
  (forall p p', typecheck p = Accept p' -> in_fragment p' -> static_typed (teqD (p_types p')) p') ->
  (forall p p' md c, typecheck p = Accept p' -> in_fragment p' -> is_np md = false ->
     reachable (p_types p') (p_funs p') md (init_config p') c -> Topo c) ->
  forall p p' md pick1 pick2 f1 f2 t1,
    typecheck p = Accept p' -> in_fragment p' -> is_np md = false ->
    exec_run f1 pick1 md (p_types p') (p_funs p') (init_config p') = RQuiescent t1 -> (f1 <= f2)%nat ->
    exists t2, exec_run f2 pick2 md (p_types p') (p_funs p') (init_config p') = RQuiescent t2 /\
               cfg_equiv t2 t1 /\ labels t2 ≡ₚ labels t1.
Proof. exact determinism_typed. Qed.

Theorem C03_async_sync_agree_typed : forall (teqD : STypes.tenv -> STypes.sty -> STypes.sty -> Prop),
  (forall p p', typecheck p = Accept p' -> teq_laws (p_types p') (teqD (p_types p'))) ->
  (forall p p', typecheck p = Accept p' -> in_fragment p' -> static_typed (teqD (p_types p')) p') ->
  (forall p p' md c, typecheck p = Accept p' -> in_fragment p' -> is_np md = false ->
     reachable (p_types p') (p_funs p') md (init_config p') c -> Topo c) ->
  forall p p' pick1 f1 t1,
    typecheck p = Accept p' -> in_fragment p' ->
    exec_run f1 pick1 Sync (p_types p') (p_funs p') (init_config p') = RQuiescent t1 ->
    exists n, forall pick2 f2, (n < f2)%nat ->
      exists t2, exec_run f2 pick2 Async (p_types p') (p_funs p') (init_config p') = RQuiescent t2 /\
                 labels t2 ≡ₚ labels t1.
Proof. exact async_sync_agree_typed. Qed.

(* TOPO IS AN INVARIANT (core fragment: no drop, no split, one provider name per process): the
   invariant Inv = run-time typing + Topo + affine bodies (every client name at most once on every
   control path, in every scope) + namespace hygiene + core fragment is preserved by every step of
   the two polarized modes; hence `topo_step` and `topo_reachable` are theorems there ... *)
Theorem C03_inv_step : forall D F teq, teq_laws D teq -> funs_typed D F teq -> core_funs F -> funs_aff F ->
  forall md c ch c', is_np md = false -> Inv D F teq c -> (md = Sync -> bufs_empty c) ->
  step md D F c ch = SStep c' -> Inv D F teq c' /\ (md = Sync -> bufs_empty c').
Proof. exact inv_step. Qed.

Theorem C03_topo_step_core : forall D F teq, teq_laws D teq -> funs_typed D F teq -> core_funs F -> funs_aff F ->
  forall md c ch c', is_np md = false -> Inv D F teq c -> (md = Sync -> bufs_empty c) ->
  step md D F c ch = SStep c' -> Topo c'.
Proof. exact topo_step_core. Qed.

Theorem C03_topo_reachable_core : forall (teqD : STypes.tenv -> STypes.sty -> STypes.sty -> Prop),
  (forall p p', typecheck p = Accept p' -> teq_laws (p_types p') (teqD (p_types p'))) ->
  (forall p p', typecheck p = Accept p' -> in_fragment p' -> static_typed (teqD (p_types p')) p') ->
  forall p p' md c, typecheck p = Accept p' -> in_fragment p' -> init_linear p' -> is_np md = false ->
    reachable (p_types p') (p_funs p') md (init_config p') c -> Topo c.
Proof. exact topo_reachable_core_program. Qed.

(* ... and C03 for accepted closed programs of the core fragment needs no premise about runs:
   what remains is teq_ok, tc_annotations_typed (as for C01 / C02) and the STATIC condition
   init_linear (function bodies and initial bodies affine and in the core fragment, the initial
   configuration a forest). *)
Theorem C03_determinism_typed_core : forall (teqD : STypes.tenv -> STypes.sty -> STypes.sty -> Prop),
  (forall p p', typecheck p = Accept p' -> teq_laws (p_types p') (teqD (p_types p'))) ->
  (forall p p', typecheck p = Accept p' -> in_fragment p' -> static_typed (teqD (p_types p')) p') ->
  forall p p' md pick1 pick2 f1 f2 t1,
    typecheck p = Accept p' -> in_fragment p' -> init_linear p' -> is_np md = false ->
    exec_run f1 pick1 md (p_types p') (p_funs p') (init_config p') = RQuiescent t1 -> (f1 <= f2)%nat ->
    exists t2, exec_run f2 pick2 md (p_types p') (p_funs p') (init_config p') = RQuiescent t2 /\
               cfg_equiv t2 t1 /\ labels t2 ≡ₚ labels t1.
Proof. exact determinism_typed_core. Qed.

Theorem C03_async_sync_agree_typed_core : forall (teqD : STypes.tenv -> STypes.sty -> STypes.sty -> Prop),
  (forall p p', typecheck p = Accept p' -> teq_laws (p_types p') (teqD (p_types p'))) ->
  (forall p p', typecheck p = Accept p' -> in_fragment p' -> static_typed (teqD (p_types p')) p') ->
  forall p p' pick1 f1 t1,
    typecheck p = Accept p' -> in_fragment p' -> init_linear p' ->
    exec_run f1 pick1 Sync (p_types p') (p_funs p') (init_config p') = RQuiescent t1 ->
    exists n, forall pick2 f2, (n < f2)%nat ->
      exists t2, exec_run f2 pick2 Async (p_types p') (p_funs p') (init_config p') = RQuiescent t2 /\
                 labels t2 ≡ₚ labels t1.
Proof. exact async_sync_agree_typed_core. Qed.

(* init_linear is decidable: the boolean check is sound, and accepted programs with channel
   passing, cuts and calls pass it (a program with split does not: outside the core fragment) *)
Theorem C03_init_linear_b_sound : forall p', init_linear_b p' = true -> init_linear p'.
Proof. exact init_linear_b_sound. Qed.

Example C03_init_linear_examples :
  init_linear_text example_text = Some true /\ init_linear_text demo_pass_text = Some true /\
  init_linear_text example_split_text = Some false.
Proof. exact (conj example_init_linear (conj demo_init_linear split_not_core)). Qed.

(* WITH a9's PREMISES DISCHARGED (teq_rt_laws, tc_annotations_typed_rt, parse_syn_ok): for PARSED
   programs of the core fragment (prog_syn_ok and raw_ok are theorems for parsed programs) the premise left is the decidable
   init_linear; for all accepted closed programs, Topo along the runs (topo_runs) instead. *)
Theorem C03_determinism_core_parsed : forall txt p p' md pick1 pick2 f1 f2 t1,
  parse_string txt = POk p -> typecheck p = Accept p' -> in_fragment p' ->
  init_linear p' -> is_np md = false ->
  exec_run f1 pick1 md (p_types p') (p_funs p') (init_config p') = RQuiescent t1 -> (f1 <= f2)%nat ->
  exists t2, exec_run f2 pick2 md (p_types p') (p_funs p') (init_config p') = RQuiescent t2 /\
             cfg_equiv t2 t1 /\ labels t2 ≡ₚ labels t1.
Proof. exact determinism_core_parsed. Qed.

Theorem C03_async_sync_agree_core_parsed : forall txt p p' pick1 f1 t1,
  parse_string txt = POk p -> typecheck p = Accept p' -> in_fragment p' ->
  init_linear p' ->
  exec_run f1 pick1 Sync (p_types p') (p_funs p') (init_config p') = RQuiescent t1 ->
  exists n, forall pick2 f2, (n < f2)%nat ->
    exists t2, exec_run f2 pick2 Async (p_types p') (p_funs p') (init_config p') = RQuiescent t2 /\ labels t2 ≡ₚ labels t1.
Proof. exact async_sync_agree_core_parsed. Qed.

Theorem C03_determinism_parsed : forall txt p p' md pick1 pick2 f1 f2 t1,
  parse_string txt = POk p -> typecheck p = Accept p' -> in_fragment p' ->
  topo_runs p' -> is_np md = false ->
  exec_run f1 pick1 md (p_types p') (p_funs p') (init_config p') = RQuiescent t1 -> (f1 <= f2)%nat ->
  exists t2, exec_run f2 pick2 md (p_types p') (p_funs p') (init_config p') = RQuiescent t2 /\
             cfg_equiv t2 t1 /\ labels t2 ≡ₚ labels t1.
Proof. exact determinism_parsed. Qed.

(* all premises decided: a program text that passes `core_premises_text` is deterministic *)
Theorem C03_core_premises_sound : forall txt, core_premises_text txt = true ->
  exists p p', parse_string txt = POk p /\ typecheck p = Accept p' /\
  forall md pick1 pick2 f1 f2 t1, is_np md = false ->
    exec_run f1 pick1 md (p_types p') (p_funs p') (init_config p') = RQuiescent t1 -> (f1 <= f2)%nat ->
    exists t2, exec_run f2 pick2 md (p_types p') (p_funs p') (init_config p') = RQuiescent t2 /\
               cfg_equiv t2 t1 /\ labels t2 ≡ₚ labels t1.
Proof. exact core_premises_sound. Qed.

(* nothing assumed: a channel-passing server/client program prints {served, done} under every schedule *)
Example C03_example_every_schedule :
  exists p p', parse_string example_text = POk p /\ typecheck p = Accept p' /\
  forall pick f, (200 <= f)%nat ->
    exists t, exec_run f pick Async (p_types p') (p_funs p') (init_config p') = RQuiescent t /\
              labels t ≡ₚ ["served"; "done"].
Proof. exact example_every_schedule. Qed.

(* ---- stage 4: init_linear from acceptance.  For an accepted program without assumed names whose SOURCE
   passes the syntactic tests raw_ok (names as the parser makes them; a theorem for parsed programs) and core_src_b (no drop /
   split / droppable forward, one provider name per process, no empty case), init_linear holds of the
   checker's output: affinity of every body in every scope from C05, the forest of the initial
   configuration from C07's ProgOK (each declared name used by one process, acyclic uses). *)
Theorem C03_init_linear_accept : forall p p',
  typecheck p = Accept p' -> in_fragment p' -> prog_syn_ok p = true -> raw_ok p = true ->
  core_src_b p = true -> init_linear p'.
Proof. exact init_linear_accept. Qed.

Theorem C03_topo_runs_core_accept : forall txt p p',
  parse_string txt = POk p -> typecheck p = Accept p' -> in_fragment p' ->
  core_src_b p = true -> topo_runs p'.
Proof. exact topo_runs_core_accept. Qed.

(* C03 for parsed programs of the core fragment: the premises are computable conditions on the text *)
Theorem C03_determinism_core_accept : forall txt p p' md pick1 pick2 f1 f2 t1,
  parse_string txt = POk p -> typecheck p = Accept p' -> in_fragment p' ->
  core_src_b p = true -> is_np md = false ->
  exec_run f1 pick1 md (p_types p') (p_funs p') (init_config p') = RQuiescent t1 -> (f1 <= f2)%nat ->
  exists t2, exec_run f2 pick2 md (p_types p') (p_funs p') (init_config p') = RQuiescent t2 /\
             cfg_equiv t2 t1 /\ labels t2 ≡ₚ labels t1.
Proof. exact determinism_core_accept. Qed.

Theorem C03_async_sync_agree_core_accept : forall txt p p' pick1 f1 t1,
  parse_string txt = POk p -> typecheck p = Accept p' -> in_fragment p' ->
  core_src_b p = true ->
  exec_run f1 pick1 Sync (p_types p') (p_funs p') (init_config p') = RQuiescent t1 ->
  exists n, forall pick2 f2, (n < f2)%nat ->
    exists t2, exec_run f2 pick2 Async (p_types p') (p_funs p') (init_config p') = RQuiescent t2 /\ labels t2 ≡ₚ labels t1.
Proof. exact async_sync_agree_core_accept. Qed.

Theorem C03_core_accept_sound : forall txt, core_accept_text txt = true ->
  exists p p', parse_string txt = POk p /\ typecheck p = Accept p' /\ init_linear p' /\
  forall md pick1 pick2 f1 f2 t1, is_np md = false ->
    exec_run f1 pick1 md (p_types p') (p_funs p') (init_config p') = RQuiescent t1 -> (f1 <= f2)%nat ->
    exists t2, exec_run f2 pick2 md (p_types p') (p_funs p') (init_config p') = RQuiescent t2 /\
               cfg_equiv t2 t1 /\ labels t2 ≡ₚ labels t1.
Proof. exact core_accept_sound. Qed.

Example C03_example_core_accept : core_accept_text example_text = true.
Proof. exact example_core_accept. Qed.

(* the bridge from C05's counting to the run-time reading, for one body *)
Theorem C03_linear_affr : forall ctx_names sh f,
  Linear.uninit_form f = true -> nec f = true -> Linear.LinearNames ctx_names sh f -> affr sh f.
Proof. exact linear_affr. Qed.

(* UNCONDITIONAL, for a syntactic class (fork-join configurations: close self / wait / new with a
   closed child / print / parameterless calls, one provider per process; `FJ c` is a structural
   property of the configuration, decided by `fj_cfg_b`): no invariant hypothesis is left. *)
Theorem C03_forkjoin_invariant : forall D F c ch c', fj_funs F -> FJ c -> step Async D F c ch = SStep c' -> FJ c'.
Proof. exact FJ_step. Qed.

Theorem C03_forkjoin_determinism : forall D F c pick1 pick2 f1 f2 t1,
  fj_funs F -> FJ c -> exec_run f1 pick1 Async D F c = RQuiescent t1 -> (f1 <= f2)%nat ->
  exists t2, exec_run f2 pick2 Async D F c = RQuiescent t2 /\ cfg_equiv t2 t1 /\ labels t2 ≡ₚ labels t1.
Proof. exact forkjoin_determinism. Qed.

Theorem C03_forkjoin_error_excludes_completion : forall D F c pick1 pick2 f1 f2 t1 who e t2,
  fj_funs F -> FJ c -> exec_run f1 pick1 Async D F c = RError t1 who e ->
  exec_run f2 pick2 Async D F c = RQuiescent t2 -> False.
Proof. exact forkjoin_error_excludes_completion. Qed.

Theorem C03_forkjoin_async_sync : forall D F c pick1 f1 t1,
  fj_funs F -> FJ c -> bufs_empty c -> exec_run f1 pick1 Sync D F c = RQuiescent t1 ->
  exists n, forall pick2 f2, (n < f2)%nat ->
    exists t2, exec_run f2 pick2 Async D F c = RQuiescent t2 /\ labels t2 ≡ₚ labels t1.
Proof. exact forkjoin_async_sync. Qed.

Theorem C03_forkjoin_program_determinism : forall (p : program) pick1 pick2 f1 f2 t1,
  fj_funs_b (p_funs p) = true -> fj_cfg_b (init_config p) = true ->
  exec_run f1 pick1 Async (p_types p) (p_funs p) (init_config p) = RQuiescent t1 -> (f1 <= f2)%nat ->
  exists t2, exec_run f2 pick2 Async (p_types p) (p_funs p) (init_config p) = RQuiescent t2 /\
             cfg_equiv t2 t1 /\ labels t2 ≡ₚ labels t1.
Proof. exact forkjoin_program_determinism. Qed.

Example C03_forkjoin_class_inhabited :
  fj_program_b demo_text = Some true /\ fj_program_b hello_text = Some true /\ fj_program_b par_text = Some true.
Proof. exact (conj demo_in_class (conj hello_in_class par_in_class)). Qed.

Example C03_demo_every_schedule :
  exists p, accepted demo_text = Some p /\
  forall pick f, (100 <= f)%nat ->
    exists t, exec_run f pick Async (p_types p) (p_funs p) (init_config p) = RQuiescent t /\
              labels t ≡ₚ ["right"; "left"; "done"].
Proof. exact demo_every_schedule. Qed.

(* non-vacuity, on a program that goes through the model of the real front end *)
Example C03_demo_two_orders_async :
  run_labels Async pick_first demo_text = Some ["right"; "left"; "done"] /\
  run_labels Async pick_last demo_text = Some ["left"; "right"; "done"].
Proof. exact (conj demo_async_first demo_async_last). Qed.

Example C03_demo_two_orders_sync :
  run_labels Sync pick_first demo_text = Some ["right"; "left"; "done"] /\
  run_labels Sync pick_last demo_text = Some ["left"; "right"; "done"].
Proof. exact (conj demo_sync_first demo_sync_last). Qed.

Example C03_demo_diamond_nonvacuous :
  exists p c1 c2,
    accepted demo_text = Some p /\
    ns_ok (init_config p) /\
    step Async (p_types p) (p_funs p) (init_config p) (Run [0]) = SStep c1 /\
    step Async (p_types p) (p_funs p) (init_config p) (Run [1]) = SStep c2 /\
    indep Async (p_types p) (init_config p) (Run [0]) (Run [1]) /\
    exists d1 d2, step Async (p_types p) (p_funs p) c1 (Run [1]) = SStep d1 /\
                  step Async (p_types p) (p_funs p) c2 (Run [0]) = SStep d2 /\ cfg_equiv d1 d2 /\ out d1 ≠ out d2.
Proof. exact demo_diamond_nonvacuous. Qed.

Print Assumptions C03_step_is_move.
Print Assumptions C03_step_procs_frame.
Print Assumptions C03_step_chans_frame.
Print Assumptions C03_out_only_grows.
Print Assumptions C03_ns_ok_init.
Print Assumptions C03_ns_ok_step.
Print Assumptions C03_diamond.
Print Assumptions C03_diamond_async.
Print Assumptions C03_async_send_recv_exclusive.
Print Assumptions C03_diamond_sync_rendezvous.
Print Assumptions C03_diamond_sync_rendezvous_run.
Print Assumptions C03_error_stable.
Print Assumptions C03_async_discipline_indep.
Print Assumptions C03_sync_discipline_indep.
Print Assumptions C03_determinism_partial.
Print Assumptions C03_determinism_partial_safe.
Print Assumptions C03_error_excludes_completion.
Print Assumptions C03_maximal_runs_same_length.
Print Assumptions C03_no_longer_run.
Print Assumptions C03_bufs_empty_init.
Print Assumptions C03_sync_run_matched.
Print Assumptions C03_async_sync_agree_partial.
Print Assumptions C03_typed_async_discipline.
Print Assumptions C03_typed_sync_discipline.
Print Assumptions C03_determinism_typed.
Print Assumptions C03_async_sync_agree_typed.
Print Assumptions C03_inv_step.
Print Assumptions C03_topo_step_core.
Print Assumptions C03_topo_reachable_core.
Print Assumptions C03_determinism_typed_core.
Print Assumptions C03_async_sync_agree_typed_core.
Print Assumptions C03_determinism_core_parsed.
Print Assumptions C03_async_sync_agree_core_parsed.
Print Assumptions C03_determinism_parsed.
Print Assumptions C03_core_premises_sound.
Print Assumptions C03_example_every_schedule.
Print Assumptions C03_init_linear_b_sound.
Print Assumptions C03_init_linear_examples.
Print Assumptions C03_forkjoin_invariant.
Print Assumptions C03_forkjoin_determinism.
Print Assumptions C03_forkjoin_error_excludes_completion.
Print Assumptions C03_forkjoin_async_sync.
Print Assumptions C03_forkjoin_program_determinism.
Print Assumptions C03_forkjoin_class_inhabited.
Print Assumptions C03_demo_every_schedule.
Print Assumptions C03_check_sound.
Print Assumptions C03_exec_check_run.
Print Assumptions C03_demo_two_orders_async.
Print Assumptions C03_demo_two_orders_sync.
Print Assumptions C03_demo_diamond_nonvacuous.
(* ---- stage 4, outside the core fragment: per-rule lemmas for the forwards the interpreter creates.
   Topo is preserved by the `drop` step (a droppable forward on a fresh channel is spawned) and by
   the `split` step (a forward providing the two fresh channels is spawned), for a typed configuration
   whose acting process has one provider and an affine body; the GC request of a droppable forward
   preserves Topo when the forward's provider is referenced by nobody, which is how `drop` makes it.
   Not covered: DUP, the receipt of a GC request, a droppable positive forward receiving. *)
Theorem C03_topo_drop_step : forall D F teq, teq_laws D teq -> forall Δ c p n0 cl k0 nx md c',
  cfg_typed D F teq Δ c -> Topo c -> ns_ok c ->
  procs c !! p = Some (Proc [n0] (FDrop cl k0) nx) -> aff None (FDrop cl k0) -> is_np md = false ->
  step md D F c (Run p) = SStep c' -> Topo c'.
Proof. exact topo_drop_step. Qed.

Theorem C03_topo_split_step : forall D F teq, teq_laws D teq -> forall Δ c p n0 x y fr k0 nx md c',
  cfg_typed D F teq Δ c -> Topo c -> ns_ok c ->
  procs c !! p = Some (Proc [n0] (FSplit x y fr k0) nx) -> aff None (FSplit x y fr k0) ->
  step md D F c (Run p) = SStep c' -> Topo c'.
Proof. exact topo_split_step. Qed.

Theorem C03_drop_child_unref : forall D F teq, teq_laws D teq -> forall Δ c p n0 cl k0 nx md c',
  cfg_typed D F teq Δ c -> ns_ok c ->
  procs c !! p = Some (Proc [n0] (FDrop cl k0) nx) -> is_np md = false ->
  step md D F c (Run p) = SStep c' ->
  (exists cn, procs c' !! (p ++ [(S nx + 1)%nat]) = Some (Proc [cn] (FFwd (mkName (ident cl) true (pol cl) (nty cl) None) cl true) 0) /\
              chan cn = Some (p ++ [nx])) /\
  forall o', obj_in c' o' -> p ++ [nx] ∉ refs o'.
Proof. exact drop_child_unref. Qed.

Theorem C03_topo_send_gc : forall D c p pp k m st,
  Topo c -> LinCfg c -> procs c !! p = Some pp -> pr_provs pp <> [] ->
  action_of Async D pp = ASend k m ->
  (m_rule m <> RGC \/ forall j o2, j ∈ cids_of (pr_provs pp) -> obj_in c o2 -> j ∉ refs o2) ->
  chans c !! k = Some st -> ch_closed st = false -> ch_buf st = None ->
  Topo (del_proc (put_msg c k st (Some m)) p) /\ LinCfg (del_proc (put_msg c k st (Some m)) p).
Proof. exact topo_send_gc. Qed.

(* the receipt of a GC request (the process ends, one droppable forward per free name of its body) and a
   droppable positive forward receiving a message (the message is dropped, one droppable forward per
   channel it carries): instances of TopoFinish.topo_finish_fwds *)
Theorem C03_topo_gc_recv : forall D F teq, teq_laws D teq -> forall Δ c p pp k st m e,
  cfg_typed D F teq Δ c -> Topo c -> ns_ok c -> procs c !! p = Some pp ->
  recv_form (pr_body0 pp) -> cids_of (pr_provs pp) = [k] ->
  chans c !! k = Some st -> ch_buf st = Some m -> ch_closed st = false -> m_rule m = RGC ->
  on_message p pp m = EOk e -> Topo (apply_effect (put_msg c k st None) p pp e).
Proof. exact topo_gc_recv. Qed.

Theorem C03_topo_dropfwd_recv : forall D F teq, teq_laws D teq -> forall Δ c p pp to from k st m e,
  cfg_typed D F teq Δ c -> Topo c -> LinCfg c -> ns_ok c -> procs c !! p = Some pp ->
  pr_body0 pp = FFwd to from true -> chan from = Some k ->
  chans c !! k = Some st -> ch_buf st = Some m -> ch_closed st = false -> is_pos_rule (m_rule m) = true ->
  (forall j o2, j ∈ cids_of (pr_provs pp) -> obj_in c o2 -> j ∉ refs o2) ->
  on_message p pp m = EOk e -> Topo (apply_effect (put_msg c k st None) p pp e).
Proof. exact topo_dropfwd_recv. Qed.

(* the DUP step: a process with several providers ends and leaves its copies and, for every free name, a
   forward providing the fresh channels of that name (TopoDup.v; DupSubst.v for what the column
   substitution does to the channels of the body) *)
Theorem C03_topo_dup_step : forall D F teq Δ c p pp md c',
  cfg_typed D F teq Δ c -> Topo c -> ns_ok c -> procs c !! p = Some pp -> affr None (pr_body0 pp) ->
  NoDup (cids_of (pr_provs pp)) -> action_of md D pp = ADup ->
  step md D F c (Run p) = SStep c' -> Topo c'.
Proof. exact topo_dup_step. Qed.

(* ---- stage 5: ALL accepted closed programs.  The invariant InvX (typed, Topo, affine bodies, namespace
   hygiene, distinct provider channels, unreferenced providers of droppable forwards, droppable forwards
   only as whole bodies) is preserved by every asynchronous step (all rules: cut, call, print, drop,
   split, DUP, send incl. FWD and GC requests, every receipt), hence by the synchronous steps; it
   holds initially for every accepted closed program whose source has no empty case and no droppable
   forward (the parser never produces one).  So Topo along the runs is a theorem, and C03 holds for
   parsed programs with exactly: parse ok, accepted, closed, all_src_b. *)
Theorem C03_invx_step_async : forall D F teq, teq_laws D teq -> funs_typed D F teq -> funs_aff F -> nofd_funs F ->
  forall c ch c', InvX D F teq c -> step Async D F c ch = SStep c' -> InvX D F teq c'.
Proof. exact invx_step_async. Qed.

Theorem C03_topo_runs_all : forall txt p p',
  parse_string txt = POk p -> typecheck p = Accept p' -> in_fragment p' -> all_src_b p = true -> topo_runs p'.
Proof. exact topo_runs_all. Qed.

Theorem C03_determinism_all : forall txt p p' md pick1 pick2 f1 f2 t1,
  parse_string txt = POk p -> typecheck p = Accept p' -> in_fragment p' -> all_src_b p = true -> is_np md = false ->
  exec_run f1 pick1 md (p_types p') (p_funs p') (init_config p') = RQuiescent t1 -> (f1 <= f2)%nat ->
  exists t2, exec_run f2 pick2 md (p_types p') (p_funs p') (init_config p') = RQuiescent t2 /\
             cfg_equiv t2 t1 /\ labels t2 ≡ₚ labels t1.
Proof. exact determinism_all. Qed.

Theorem C03_async_sync_agree_all : forall txt p p' pick1 f1 t1,
  parse_string txt = POk p -> typecheck p = Accept p' -> in_fragment p' -> all_src_b p = true ->
  exec_run f1 pick1 Sync (p_types p') (p_funs p') (init_config p') = RQuiescent t1 ->
  exists n, forall pick2 f2, (n < f2)%nat ->
    exists t2, exec_run f2 pick2 Async (p_types p') (p_funs p') (init_config p') = RQuiescent t2 /\ labels t2 ≡ₚ labels t1.
Proof. exact async_sync_agree_all. Qed.

Theorem C03_all_accept_sound : forall txt, all_accept_text txt = true ->
  exists p p', parse_string txt = POk p /\ typecheck p = Accept p' /\ topo_runs p' /\
  forall md pick1 pick2 f1 f2 t1, is_np md = false ->
    exec_run f1 pick1 md (p_types p') (p_funs p') (init_config p') = RQuiescent t1 -> (f1 <= f2)%nat ->
    exists t2, exec_run f2 pick2 md (p_types p') (p_funs p') (init_config p') = RQuiescent t2 /\
               cfg_equiv t2 t1 /\ labels t2 ≡ₚ labels t1.
Proof. exact all_accept_sound. Qed.

Example C03_example_all_accept :
  all_accept_text example_split_text = true /\ all_accept_text example_drop_text = true /\ all_accept_text example_text = true.
Proof. exact example_all_accept. Qed.

Example C03_example_split_every_schedule :
  exists p p', parse_string example_split_text = POk p /\ typecheck p = Accept p' /\
  forall pick f, (300 <= f)%nat ->
    exists t, exec_run f pick Async (p_types p') (p_funs p') (init_config p') = RQuiescent t /\
              labels t ≡ₚ ["made"; "done"].
Proof. exact example_split_every_schedule. Qed.

(* ---- stage 6: the NON-POLARIZED mode.
   (1) the invariant InvX is preserved by every step of the mode (all programs): a Run step is a DUP or an
       internal step, a Rendezvous is an asynchronous send and its receipt, Control f t hands the
       providers of the forward f to t (InvNP.topo_control);
   (2) so Topo along the non-polarized runs is a theorem for parsed accepted closed programs (all_src_b);
   (3) for programs WITHOUT forwards, drop and split (one provider name per process) the runs of the mode
       ARE the synchronous runs, oracle by oracle: determinism and the last clause of C03 (the same
       multiset as the polarized modes) follow.  With forwards the one-step diamond is FALSE in this mode
       (Control f t against an internal step of t that leads to a call); the abstract theorem for
       balanced joins that a proof would need is Balanced.uniform_balanced; the case analysis and the
       weak simulation for forwards / unreclaimed drops are not done. *)
Theorem C03_invx_step_np : forall D F teq, teq_laws D teq -> funs_typed D F teq -> funs_aff F -> nofd_funs F ->
  forall c ch c', InvX D F teq c -> bufs_empty c -> step NP D F c ch = SStep c' -> InvX D F teq c' /\ bufs_empty c'.
Proof. exact invx_step_np. Qed.

Theorem C03_topo_runs_np_all : forall txt p p',
  parse_string txt = POk p -> typecheck p = Accept p' -> in_fragment p' -> all_src_b p = true -> topo_runs_np p'.
Proof. exact topo_runs_np_all. Qed.

Theorem C03_np_run_sync : forall p p' fuel pick,
  typecheck p = Accept p' -> plain_src_b p = true ->
  exec_run fuel pick NP (p_types p') (p_funs p') (init_config p') =
  exec_run fuel pick Sync (p_types p') (p_funs p') (init_config p').
Proof. exact np_run_sync. Qed.

Theorem C03_determinism_np_plain : forall txt p p' pick1 pick2 f1 f2 t1,
  parse_string txt = POk p -> typecheck p = Accept p' -> in_fragment p' -> np_src_b p = true ->
  exec_run f1 pick1 NP (p_types p') (p_funs p') (init_config p') = RQuiescent t1 -> (f1 <= f2)%nat ->
  exists t2, exec_run f2 pick2 NP (p_types p') (p_funs p') (init_config p') = RQuiescent t2 /\
             cfg_equiv t2 t1 /\ labels t2 ≡ₚ labels t1.
Proof. exact determinism_np_plain. Qed.

Theorem C03_np_polarized_agree_plain : forall txt p p' pick1 f1 t1,
  parse_string txt = POk p -> typecheck p = Accept p' -> in_fragment p' -> np_src_b p = true ->
  exec_run f1 pick1 NP (p_types p') (p_funs p') (init_config p') = RQuiescent t1 ->
  (forall pick2 f2, (f1 <= f2)%nat ->
     exists t2, exec_run f2 pick2 Sync (p_types p') (p_funs p') (init_config p') = RQuiescent t2 /\ labels t2 ≡ₚ labels t1) /\
  exists n, forall pick2 f2, (n < f2)%nat ->
    exists t2, exec_run f2 pick2 Async (p_types p') (p_funs p') (init_config p') = RQuiescent t2 /\ labels t2 ≡ₚ labels t1.
Proof. exact np_polarized_agree_plain. Qed.

Example C03_example_np_accept : np_accept_text example_text = true.
Proof. exact example_np_accept. Qed.

(* ---- FINAL FORMS for parsed programs (a9's SrcAll.all_src_parsed makes the source test a theorem):
   parse ok, accepted, closed => determinism and Async/Sync agreement in both polarized modes; for the
   non-polarized mode the class test plain_src_b (no forward / drop / split, one provider name) remains *)
Theorem C03_determinism_parsed_final : forall txt p p' md pick1 pick2 f1 f2 t1,
  parse_string txt = POk p -> typecheck p = Accept p' -> in_fragment p' -> is_np md = false ->
  exec_run f1 pick1 md (p_types p') (p_funs p') (init_config p') = RQuiescent t1 -> (f1 <= f2)%nat ->
  exists t2, exec_run f2 pick2 md (p_types p') (p_funs p') (init_config p') = RQuiescent t2 /\
             cfg_equiv t2 t1 /\ labels t2 ≡ₚ labels t1.
Proof. exact determinism_parsed_final. Qed.

Theorem C03_async_sync_agree_parsed_final : forall txt p p' pick1 f1 t1,
  parse_string txt = POk p -> typecheck p = Accept p' -> in_fragment p' ->
  exec_run f1 pick1 Sync (p_types p') (p_funs p') (init_config p') = RQuiescent t1 ->
  exists n, forall pick2 f2, (n < f2)%nat ->
    exists t2, exec_run f2 pick2 Async (p_types p') (p_funs p') (init_config p') = RQuiescent t2 /\ labels t2 ≡ₚ labels t1.
Proof. exact async_sync_agree_parsed_final. Qed.

Theorem C03_determinism_np_plain_final : forall txt p p' pick1 pick2 f1 f2 t1,
  parse_string txt = POk p -> typecheck p = Accept p' -> in_fragment p' -> plain_src_b p = true ->
  exec_run f1 pick1 NP (p_types p') (p_funs p') (init_config p') = RQuiescent t1 -> (f1 <= f2)%nat ->
  exists t2, exec_run f2 pick2 NP (p_types p') (p_funs p') (init_config p') = RQuiescent t2 /\
             cfg_equiv t2 t1 /\ labels t2 ≡ₚ labels t1.
Proof. exact determinism_np_plain_final. Qed.

Theorem C03_np_polarized_agree_plain_final : forall txt p p' pick1 f1 t1,
  parse_string txt = POk p -> typecheck p = Accept p' -> in_fragment p' -> plain_src_b p = true ->
  exec_run f1 pick1 NP (p_types p') (p_funs p') (init_config p') = RQuiescent t1 ->
  (forall pick2 f2, (f1 <= f2)%nat ->
     exists t2, exec_run f2 pick2 Sync (p_types p') (p_funs p') (init_config p') = RQuiescent t2 /\ labels t2 ≡ₚ labels t1) /\
  exists n, forall pick2 f2, (n < f2)%nat ->
    exists t2, exec_run f2 pick2 Async (p_types p') (p_funs p') (init_config p') = RQuiescent t2 /\ labels t2 ≡ₚ labels t1.
Proof. exact np_polarized_agree_plain_final. Qed.

(* the peaks of the non-polarized mode (typed forest configuration, empty buffers): two different enabled
   choices are independent - and then commute in one step - unless they share the target of a control
   message: Control f t with Run t, with a Rendezvous of t, or with Control t t' *)
Theorem C03_np_peak_cases : forall D F teq, teq_laws D teq -> funs_typed D F teq ->
  forall Δ c, cfg_typed D F teq Δ c -> Topo c -> bufs_empty c ->
  forall a b c1 c2, a <> b -> step NP D F c a = SStep c1 -> step NP D F c b = SStep c2 ->
  indep NP D c a b \/ np_conflict a b \/ np_conflict b a.
Proof. exact np_peak_cases. Qed.

Theorem C03_np_peak_diamond : forall D F teq, teq_laws D teq -> funs_typed D F teq ->
  forall Δ c, cfg_typed D F teq Δ c -> Topo c -> bufs_empty c ->
  forall a b c1 c2, ns_ok c -> a <> b -> step NP D F c a = SStep c1 -> step NP D F c b = SStep c2 ->
  ~ np_conflict a b -> ~ np_conflict b a ->
  exists d1 d2, step NP D F c1 b = SStep d1 /\ step NP D F c2 a = SStep d2 /\ cfg_equiv d1 d2.
Proof. exact np_peak_diamond. Qed.

(* ---- stage 7: determinism of the NON-POLARIZED mode for CONTRACTION-FREE programs (no split, one provider
   name per process; forwards and drop allowed).  Every peak closes with a balanced join: equal or
   independent choices in one step, Control f t against Run t / a Rendezvous of t after t has been run
   until it polls again (the control message as a formal transformation commutes with the steps of its
   target), Control f t against Control t t' in one step; uniform termination by
   Balanced.uniform_balanced_bounded. *)
Theorem C03_np_balanced : forall D F teq, teq_laws D teq -> funs_typed D F teq -> funs_aff F -> nofd_funs F -> cfree_funs F ->
  forall c a b c1 c2 N, JN D F teq c -> stp NP D F c a = Some c1 -> stp NP D F c b = Some c2 ->
  (forall m c', bsteps (stp NP D F) m c1 c' -> (m <= N)%nat) ->
  exists k d1 d2, bsteps (stp NP D F) k c1 d1 /\ bsteps (stp NP D F) k c2 d2 /\ cfg_equiv d1 d2.
Proof. exact np_balanced. Qed.

Theorem C03_determinism_np_cfree_cfg : forall D F teq, teq_laws D teq -> funs_typed D F teq -> funs_aff F -> nofd_funs F -> cfree_funs F ->
  forall c pick1 pick2 f1 f2 t1, JN D F teq c -> exec_run f1 pick1 NP D F c = RQuiescent t1 -> (f1 <= f2)%nat ->
  exists t2, exec_run f2 pick2 NP D F c = RQuiescent t2 /\ cfg_equiv t2 t1 /\ labels t2 ≡ₚ labels t1.
Proof. exact determinism_np_cfree_cfg. Qed.

Theorem C03_determinism_np_cfree : forall txt p p' pick1 pick2 f1 f2 t1,
  parse_string txt = POk p -> typecheck p = Accept p' -> in_fragment p' -> cfree_src_b p = true ->
  exec_run f1 pick1 NP (p_types p') (p_funs p') (init_config p') = RQuiescent t1 -> (f1 <= f2)%nat ->
  exists t2, exec_run f2 pick2 NP (p_types p') (p_funs p') (init_config p') = RQuiescent t2 /\
             cfg_equiv t2 t1 /\ labels t2 ≡ₚ labels t1.
Proof. exact determinism_np_cfree. Qed.

Example C03_example_np_cfree : np_cfree_text example_drop_text = true /\ np_cfree_text example_text = true.
Proof. exact example_np_cfree. Qed.

(* ---- towards the agreement of the non-polarized multiset with the polarized one WITH forwards (NOT proved
   as a whole; see the manifest note): the steps of the non-polarized mode that are synchronous steps *)
Theorem C03_np_run_is_sync : forall D F c p pp, procs c !! p = Some pp ->
  body_is_fwd (pr_body0 pp) = false -> is_drop (pr_body0 pp) = false ->
  step NP D F c (Run p) = step Sync D F c (Run p).
Proof. exact np_run_is_sync. Qed.

Theorem C03_np_rdv_is_sync : forall D F c s r ps pr, procs c !! s = Some ps -> procs c !! r = Some pr ->
  body_is_fwd (pr_body0 ps) = false -> body_is_fwd (pr_body0 pr) = false ->
  step NP D F c (Rendezvous s r) = step Sync D F c (Rendezvous s r).
Proof. exact np_rdv_is_sync. Qed.

Theorem C03_np_ctl_is_sync_neg : forall D F c f t to from nf nxf n0 body nx k st,
  f <> t -> procs c !! f = Some (Proc [nf] (FFwd to from false) nxf) -> is_self to = true -> chan from = Some k ->
  fwd_polarity D from = Ok Neg ->
  procs c !! t = Some (Proc [n0] body nx) -> chan n0 = Some k -> body_is_fwd body = false ->
  action_of Sync D (Proc [n0] body nx) = ARecv k -> chans c !! k = Some st -> ch_closed st = false ->
  step NP D F c (Control f t) = step Sync D F c (Rendezvous f t).
Proof. exact np_ctl_is_sync_neg. Qed.

(* ---- where the synchronous polarized mode is quiescent, the non-polarized mode can only hand over control, printing nothing *)
Theorem C03_np_flush_step : forall D F teq, teq_laws D teq -> funs_typed D F teq ->
  forall c ch c1, JN D F teq c -> quiescent Sync D F c -> step NP D F c ch = SStep c1 ->
  quiescent Sync D F c1 /\ out c1 = out c /\ exists f t, ch = Control f t.
Proof. exact flush_step. Qed.

Theorem C03_np_flush_run : forall D F teq, teq_laws D teq -> funs_typed D F teq ->
  forall n c t, funs_aff F -> nofd_funs F -> cfree_funs F ->
  JN D F teq c -> quiescent Sync D F c -> bsteps (stp NP D F) n c t -> quiescent Sync D F t /\ out t = out c.
Proof. exact flush_run. Qed.

(* ---- the class of negative forwards: closed under the steps; a synchronous step IS a non-polarized step *)
Theorem C03_nfw_subst : forall D old new f, nfw D (subst old new f) = nfw D f.
Proof. exact nfw_subst. Qed.

Theorem C03_nf_step_np : forall D F, nfw_funs D F ->
  forall c ch c', NF D c -> bufs_empty c -> step NP D F c ch = SStep c' -> NF D c'.
Proof. exact nf_step_np. Qed.

Theorem C03_sync_step_np_exact : forall D F teq, teq_laws D teq -> funs_typed D F teq ->
  forall c ch c', JN D F teq c -> NF D c -> step Sync D F c ch = SStep c' -> exists ch', step NP D F c ch' = SStep c'.
Proof. exact sync_step_np_exact. Qed.

(* ---- the last clause of the property for contraction-free programs WITH forwards (all at negative types), without drop *)
Theorem C03_np_polarized_agree_negfwd_cfg : forall D F teq, teq_laws D teq -> funs_typed D F teq -> funs_aff F -> nofd_funs F -> nfw_funs D F ->
  forall c pick1 f1 t1, JN D F teq c -> NF D c -> exec_run f1 pick1 NP D F c = RQuiescent t1 ->
  forall pick2 f2, (f1 <= f2)%nat -> exists t2, exec_run f2 pick2 Sync D F c = RQuiescent t2 /\ labels t2 ≡ₚ labels t1.
Proof. exact np_sync_agree_neg_cfg. Qed.

Theorem C03_np_polarized_agree_negfwd : forall txt p p' pick1 f1 t1,
  parse_string txt = POk p -> typecheck p = Accept p' -> in_fragment p' -> negfwd_prog_b p' = true ->
  exec_run f1 pick1 NP (p_types p') (p_funs p') (init_config p') = RQuiescent t1 ->
  (forall pick2 f2, (f1 <= f2)%nat ->
     exists t2, exec_run f2 pick2 Sync (p_types p') (p_funs p') (init_config p') = RQuiescent t2 /\ labels t2 ≡ₚ labels t1) /\
  exists n, forall pick2 f2, (n < f2)%nat ->
    exists t2, exec_run f2 pick2 Async (p_types p') (p_funs p') (init_config p') = RQuiescent t2 /\ labels t2 ≡ₚ labels t1.
Proof. exact np_polarized_agree_negfwd. Qed.

Example C03_example_negfwd_accept : negfwd_text example_negfwd_text = true.
Proof. exact example_negfwd_accept. Qed.

Example C03_example_negfwd_runs :
  run_text example_negfwd_text NP (fun _ _ => 0%nat) = Some (1%nat, ["served"; "done"], true) /\
  run_text example_negfwd_text Sync (fun _ _ => 0%nat) = Some (1%nat, ["served"; "done"], true) /\
  run_text example_negfwd_text Async (fun _ _ => 0%nat) = Some (0%nat, ["served"; "done"], true).
Proof. exact example_negfwd_runs. Qed.

(* ---- the converse: a complete synchronous run is matched by every long enough non-polarized run *)
Theorem C03_np_flush_terminates : forall D F teq, teq_laws D teq -> funs_typed D F teq -> funs_aff F -> nofd_funs F -> nfw_funs D F ->
  forall n c, (size (procs c) <= n)%nat -> JN D F teq c -> quiescent Sync D F c ->
  exists j t, bsteps (stp NP D F) j c t /\ quiescent NP D F t.
Proof. exact flush_terminates. Qed.

Theorem C03_polarized_np_agree_negfwd_cfg : forall D F teq, teq_laws D teq -> funs_typed D F teq -> funs_aff F -> nofd_funs F -> nfw_funs D F ->
  forall c pick1 f1 t1, JN D F teq c -> NF D c -> exec_run f1 pick1 Sync D F c = RQuiescent t1 ->
  exists n, forall pick2 f2, (n < f2)%nat -> exists t2, exec_run f2 pick2 NP D F c = RQuiescent t2 /\ labels t2 ≡ₚ labels t1.
Proof. exact sync_np_agree_neg_cfg. Qed.

Theorem C03_polarized_np_agree_negfwd : forall txt p p' pick1 f1 t1,
  parse_string txt = POk p -> typecheck p = Accept p' -> in_fragment p' -> negfwd_prog_b p' = true ->
  exec_run f1 pick1 Sync (p_types p') (p_funs p') (init_config p') = RQuiescent t1 ->
  exists n, forall pick2 f2, (n < f2)%nat ->
    exists t2, exec_run f2 pick2 NP (p_types p') (p_funs p') (init_config p') = RQuiescent t2 /\ labels t2 ≡ₚ labels t1.
Proof. exact polarized_np_agree_negfwd. Qed.

(* ---- groundwork for positive forwards (the agreement is NOT proved for them): where the two modes part *)
Theorem C03_pos_handover_steps : forall D F c f t to from nf nxf n0 B nx k kf st m,
  f <> t ->
  procs c !! f = Some (Proc [nf] (FFwd to from false) nxf) -> is_self to = true -> chan from = Some k ->
  fwd_polarity D from = Ok Pos -> chan nf = Some kf ->
  procs c !! t = Some (Proc [n0] B nx) -> chan n0 = Some k ->
  action_of Async D (Proc [n0] B nx) = ASend k m -> pos_rule (m_rule m) = true ->
  chans c !! k = Some st -> ch_closed st = false ->
  exists B',
    step Sync D F c (Rendezvous t f) =
      SStep (Cfg (<[f := Proc [nf] B' (nxf + 0)]> (delete t (procs c))) (chans c) (out c)) /\
    step NP D F c (Control f t) =
      SStep (Cfg (<[t := Proc [nf] B (nx + 0)]> (delete f (procs c))) (close_all [k] (chans c)) (out c)) /\
    action_of Async D (Proc [nf] B' (nxf + 0)) = ASend kf m /\
    action_of Async D (Proc [nf] B (nx + 0)) = ASend kf m.
Proof. exact pos_handover_steps. Qed.

Print Assumptions C03_init_linear_accept.
Print Assumptions C03_topo_runs_core_accept.
Print Assumptions C03_determinism_core_accept.
Print Assumptions C03_async_sync_agree_core_accept.
Print Assumptions C03_core_accept_sound.
Print Assumptions C03_example_core_accept.
Print Assumptions C03_linear_affr.
Print Assumptions C03_topo_drop_step.
Print Assumptions C03_topo_split_step.
Print Assumptions C03_drop_child_unref.
Print Assumptions C03_topo_send_gc.
Print Assumptions C03_topo_gc_recv.
Print Assumptions C03_topo_dropfwd_recv.
Print Assumptions C03_topo_dup_step.
Print Assumptions C03_invx_step_async.
Print Assumptions C03_topo_runs_all.
Print Assumptions C03_determinism_all.
Print Assumptions C03_async_sync_agree_all.
Print Assumptions C03_all_accept_sound.
Print Assumptions C03_example_all_accept.
Print Assumptions C03_example_split_every_schedule.
Print Assumptions C03_invx_step_np.
Print Assumptions C03_topo_runs_np_all.
Print Assumptions C03_np_run_sync.
Print Assumptions C03_determinism_np_plain.
Print Assumptions C03_np_polarized_agree_plain.
Print Assumptions C03_example_np_accept.
Print Assumptions uniform_balanced.
Print Assumptions C03_determinism_parsed_final.
Print Assumptions C03_async_sync_agree_parsed_final.
Print Assumptions C03_determinism_np_plain_final.
Print Assumptions C03_np_polarized_agree_plain_final.
Print Assumptions C03_np_peak_cases.
Print Assumptions C03_np_peak_diamond.
Print Assumptions uniform_balanced_bounded.
Print Assumptions C03_np_balanced.
Print Assumptions C03_determinism_np_cfree_cfg.
Print Assumptions C03_determinism_np_cfree.
Print Assumptions C03_example_np_cfree.
Print Assumptions C03_np_run_is_sync.
Print Assumptions C03_np_rdv_is_sync.
Print Assumptions C03_np_ctl_is_sync_neg.
Print Assumptions C03_np_flush_step.
Print Assumptions C03_np_flush_run.
Print Assumptions C03_nfw_subst.
Print Assumptions C03_nf_step_np.
Print Assumptions C03_sync_step_np_exact.
Print Assumptions C03_np_polarized_agree_negfwd_cfg.
Print Assumptions C03_np_polarized_agree_negfwd.
Print Assumptions C03_example_negfwd_accept.
Print Assumptions C03_example_negfwd_runs.
Print Assumptions C03_np_flush_terminates.
Print Assumptions C03_polarized_np_agree_negfwd_cfg.
Print Assumptions C03_polarized_np_agree_negfwd.
Print Assumptions C03_pos_handover_steps.
