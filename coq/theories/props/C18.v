(* C18 — CLI gatekeeping: nothing runs unless parsing and typechecking succeed.
   Statements about Cli.cli (cmd/cli.go composed with the whole pipeline model), for ALL flag
   vectors, ALL file contents (or a missing file), ALL schedules (`pick`) and fuels. *)
From stdpp Require Import gmap.
Require Import Grits.Base Grits.STypes Grits.Forms Grits.Expand Grits.TcTop Grits.Runtime Grits.Cli Grits.proofs.CliProofs
               Grits.spec.Topo Grits.proofs.RtSafety Grits.proofs.RtTheorems Grits.proofs.RtTcSyn Grits.proofs.RtTheoremsTc Grits.proofs.CliSafety.

Theorem C18_runs_only_if_ok : forall pick fuel f file,
  co_ran (cli pick fuel f file) = true ->
  parse_ok file = true /\ (typecheck_on f = false \/ tc_ok file = true) /\ execute_on f = true.
Proof. exact runs_only_if_ok. Qed.

Theorem C18_noexecute_never_runs : forall pick fuel f file,
  fl_noexecute f = true -> co_ran (cli pick fuel f file) = false /\ co_labels (cli pick fuel f file) = [].
Proof. exact noexecute_never_runs. Qed.

Theorem C18_error_is_reported : forall pick fuel f file,
  parse_panics file = false ->
  (parse_ok file = false \/ (typecheck_on f = true /\ tc_ok file = false)) ->
  let o := cli pick fuel f file in
  co_exit o = 1 /\ co_diags o = 1 /\ co_labels o = [] /\ co_ran o = false /\ co_trace o = false.
Proof. exact error_is_reported. Qed.

Theorem C18_exit_zero_iff : forall pick fuel f file,
  let o := cli pick fuel f file in
  co_exit o = 0 <->
  (parse_ok file = true /\ (typecheck_on f = false \/ tc_ok file = true) /\ co_trace o = false).
Proof. exact exit_zero_iff. Qed.

Theorem C18_no_output_on_failure : forall pick fuel f file,
  co_exit (cli pick fuel f file) = 1 -> co_labels (cli pick fuel f file) = [].
Proof. exact no_output_on_failure. Qed.

Theorem C18_trace_only_from_runtime : forall pick fuel f file,
  co_trace (cli pick fuel f file) = true -> parse_panics file = true \/ co_ran (cli pick fuel f file) = true.
Proof. exact trace_only_from_runtime. Qed.

(* "the run did not die", discharged by type safety (C01) for a closed program that was checked and is run in the
   asynchronous polarized mode (the default): exit status 0, no diagnostic, no Go panic trace, under every schedule.
   Premise as in C01_safety_parsed_partial: the forest invariant
   topo_runs (a theorem for the core fragment, C03_topo_reachable_core; tested on every run otherwise). *)
Theorem C18_checked_closed_async_exits_zero : forall pick fuel f s p p',
  parse_string s = POk p -> typecheck_on f = true -> typecheck p = Accept p' ->
  run_mode f = Some Async -> in_fragment p' -> topo_runs p' ->
  co_exit (cli pick fuel f (Some s)) = 0 /\ co_trace (cli pick fuel f (Some s)) = false /\ co_diags (cli pick fuel f (Some s)) = 0.
Proof. exact cli_checked_async_exits_zero. Qed.

(* the same for whichever mode the flags select (--sync selects the non-polarized mode): C01's safety theorem for the
   three modes; premise: the forest invariant on the configurations reachable in that mode *)
Theorem C18_checked_closed_exits_zero : forall pick fuel f s p p' md,
  parse_string s = POk p -> typecheck_on f = true -> typecheck p = Accept p' ->
  run_mode f = Some md -> in_fragment p' ->
  (forall c, RtSafety.reachable (p_types p') (p_funs p') md (init_config p') c -> Topo c) ->
  co_exit (cli pick fuel f (Some s)) = 0 /\ co_trace (cli pick fuel f (Some s)) = false /\ co_diags (cli pick fuel f (Some s)) = 0.
Proof. exact cli_checked_exits_zero. Qed.

(* FINAL FORM: a parsed, checked, closed program run in whichever mode the flags select exits with status 0, prints no
   diagnostic and no Go panic trace, under every schedule - no further premise (C01_safety_all_modes_parsed).  Together
   with C18_exit_zero_iff and C18_error_is_reported this is the whole of "exit status 0 iff parsing succeeded and
   typechecking succeeded or was skipped" for closed programs that ARE checked; unchecked and open programs are F19. *)
Theorem C18_checked_closed_program_exits_zero : forall pick fuel f s p p' md,
  parse_string s = POk p -> typecheck_on f = true -> typecheck p = Accept p' ->
  run_mode f = Some md -> in_fragment p' ->
  co_exit (cli pick fuel f (Some s)) = 0 /\ co_trace (cli pick fuel f (Some s)) = false /\ co_diags (cli pick fuel f (Some s)) = 0.
Proof. exact cli_checked_closed_exits_zero. Qed.

(* non-vacuity: a file that runs, one that is rejected, one with a syntax error *)
Definition fl_default : flags :=
  {| fl_typecheck := true; fl_notypecheck := false; fl_execute := true; fl_noexecute := false; fl_sync := false; fl_async := true |}.
Example C18_example_runs :
  let o := cli (fun _ _ => 0) 1000 fl_default (Some "prc[a] : 1 = print hello; close self") in
  co_exit o = 0 /\ co_ran o = true /\ co_labels o = ["hello"].
Proof. vm_compute. auto. Qed.
Example C18_example_type_error :
  let o := cli (fun _ _ => 0) 1000 fl_default (Some "prc[a] : 1 * 1 = print hello; close self") in
  co_exit o = 1 /\ co_ran o = false /\ co_labels o = [].
Proof. vm_compute. auto. Qed.
Example C18_example_syntax_error :
  let o := cli (fun _ _ => 0) 1000 fl_default (Some "prc[a] : 1 = print hello; close self @") in
  co_exit o = 1 /\ co_ran o = false /\ co_diags o = 1.
Proof. vm_compute. auto. Qed.

Print Assumptions C18_runs_only_if_ok.
Print Assumptions C18_noexecute_never_runs.
Print Assumptions C18_error_is_reported.
Print Assumptions C18_exit_zero_iff.
Print Assumptions C18_no_output_on_failure.
Print Assumptions C18_trace_only_from_runtime.
Print Assumptions C18_checked_closed_async_exits_zero.
Print Assumptions C18_checked_closed_exits_zero.
Print Assumptions C18_checked_closed_program_exits_zero.
