(* props/C10.v — only well-formed, contractive, consistently-moded types are admitted.
   For ALL environments D of (converted) type definitions — no bound on their number or size:
     the model of SanityChecksTypeDefinitions accepts D  iff  D is WellFormed (spec/WFSpec.v);
     the fuel of isContractive never runs out; for accepted D, Unfold of every defined name
     returns a structural type with the fuel the pipeline hands in;
     the same equivalence for annotation types (SanityChecksType). *)
Require Import Grits.Base Grits.ModeDefs Grits.Modes Grits.STypes Grits.Infer Grits.WF Grits.Unfold.
Require Import Grits.WFObs.
Require Import Grits.spec.WFSpec Grits.proofs.WFProofs Grits.proofs.WFExamples.

Theorem wf_sound : forall D, sanity_typedefs D = Ok None -> WellFormed D.
Proof. exact wf_sound_proof. Qed.

Theorem wf_complete : forall D, WellFormed D -> sanity_typedefs D = Ok None.
Proof. exact wf_complete_proof. Qed.

Theorem contractive_fuel_enough : forall D t s, is_contractive (contractive_fuel D) D t [] <> Hang s.
Proof. exact contractive_fuel_enough_lemma. Qed.

Theorem unfold_terminates : forall D, WellFormed D -> forall d, In d D -> forall m,
  exists T, unfold (unfold_fuel D) D (TName (td_name d) m) = Ok (Some T) /\ is_name T = false.
Proof. exact unfold_terminates_proof. Qed.

Theorem wf_types_sound : forall D ts, sanity_types D ts = None -> Forall (WellFormedType D) ts.
Proof. exact wf_types_sound_proof. Qed.

Theorem wf_types_complete : forall D ts,
  NoDup (names D) -> Forall (WellFormedType D) ts -> sanity_types D ts = None.
Proof. exact wf_types_complete_proof. Qed.

(* finding F23 (repaired): the witness is rejected by the model of the current code *)
Theorem wf_rejects_alias_cycle_modes :
  exists l, wf_obs f23_text = "REJECT:def-mode-mismatch" ^^ l.
Proof. exact F23_rejected_class. Qed.

Theorem wf_hypotheses_satisfiable : WellFormed ex_env.
Proof. exact ex_env_wellformed. Qed.

Print Assumptions wf_sound.
Print Assumptions wf_complete.
Print Assumptions contractive_fuel_enough.
Print Assumptions unfold_terminates.
Print Assumptions wf_types_sound.
Print Assumptions wf_types_complete.
Print Assumptions wf_rejects_alias_cycle_modes.
Print Assumptions wf_hypotheses_satisfiable.
