(* C02 — progress: accepted programs run to completion, nothing is left stuck.
   PROVED (no axioms; hypotheses are explicit premises), every form of the language (connectives,
   cut, call, print, forward, drop with droppable forwards and GC requests, split and DUP):
     * C02_progress_partial (asynchronous mode): in a typed (spec/RtTyping.v), Topo (spec/Topo.v),
       quiescent configuration (1) every remaining process is blocked in a receive on its OWN, single,
       provider channel, of negative type, with an empty open buffer (poised: nobody is stuck sending,
       nobody waits for a provider, nobody still has to duplicate, no run-time error is pending);
       (2) every message left in a buffer is positive; (3) if every channel provided by a remaining
       process, or by a remaining message that carries channels, has a client object, then no process
       remains at all.  So the survivors are exactly the providers whose chain of clients ends at a
       top-level channel nobody uses (a poised top-level negative provider, or a top-level result
       carrying channels that nobody consumes).  Dropping a channel is covered: the droppable
       forward / GC request reach the provider, which propagates the request to everything it
       depends on and ends (C02_example_runs: 0 processes left after `drop s`);
     * C02_progress_run_partial : the same for the configuration in which a run of an accepted
       closed program ends — premises teq_ok, tc_annotations_typed, topo_reachable;
     * C02_progress_sync_partial / C02_progress_sync_run_partial : synchronous mode (nothing is ever
       buffered): every survivor is blocked on its OWN provider channel, receiving (poised) or
       sending a positive message (offering a result nobody takes); if each of these channels has a
       client, nobody survives.
     * C02_progress_run_tc_partial / C02_progress_sync_run_tc_partial : the same two statements with
       the premises teq_ok and tc_annotations_typed DISCHARGED (agreement teq_rt = identity or
       bisimilarity; proofs/RtTcSound.v, RtTcSoundTop.v, RtTcBisim.v, RtTheoremsTc.v); premises left,
       prog_syn_ok p, raw_ok p (computable; theorems for parsed programs: the _parsed_ versions have
       no premise but acceptance and Topo) and Topo on the reachable configurations.
     * C02_progress_run_parsed / C02_progress_sync_run_parsed : the two statements for parsed, accepted,
       closed programs with NO further premise (Topo along the runs: proofs/DeterminismAll.v; its
       source test is a theorem for parsed accepted programs: proofs/SrcAll.v).
     * C02_progress_np_partial / C02_progress_np_run_parsed : the NON-POLARIZED mode (proofs/RtProgressNP.v):
       in a typed, Topo, quiescent configuration with empty buffers no forward is left (its control
       message would be accepted: induction on the rank), hence the configuration is quiescent in the
       synchronous mode too and the synchronous statement applies; for the end of every quiescent run of
       a parsed, accepted, closed program no premise is left.
   (In the statements that keep it) the premise topo_runs / topo_reachable (the latter is false
   for programs whose top-level processes use each other cyclically: finding F29, fixed in /repo). *)
From stdpp Require Import gmap strings.
Require Import Grits.Base Grits.ModeDefs Grits.Modes Grits.STypes Grits.Forms Grits.Subst Grits.TcDeps Grits.Expand
               Grits.Tc Grits.TcTop Grits.Runtime Grits.spec.RtTyping Grits.spec.Topo
               Grits.proofs.RtEffect Grits.proofs.RtSafety Grits.proofs.RtInit Grits.proofs.RtProgress
               Grits.proofs.RtTheorems Grits.spec.SynOk Grits.proofs.RtTcSyn Grits.proofs.RtTcBisim Grits.proofs.RtTheoremsTc Grits.proofs.RtProgressNP Grits.proofs.RtTheoremsFinal.

Theorem C02_progress_partial : forall D F teq, teq_laws D teq -> funs_typed D F teq ->
  forall Δ c,
  cfg_typed D F teq Δ c -> Topo c -> quiescent Async D F c ->
  (forall self p, procs c !! self = Some p ->
     exists k st T, action_of Async D p = ARecv k /\ own_chan p k /\ Δ !! k = Some T /\ pol_of_ty D T Neg /\
                    chans c !! k = Some st /\ ch_buf st = None /\ ch_closed st = false) /\
  (forall k st m, chans c !! k = Some st -> ch_buf st = Some m -> is_pos_rule (m_rule m) = true) /\
  ((forall k, alive c k -> exists o, obj_in c o /\ k ∈ refs o) -> procs c = ∅).
Proof. exact progress_partial. Qed.

Theorem C02_progress_run_partial : forall teqD : tenv -> sty -> sty -> Prop,
  (* teq_ok *)
  (forall p p', typecheck p = Accept p' -> teq_laws (p_types p') (teqD (p_types p'))) ->
  (* tc_annotations_typed *)
  (forall p p', typecheck p = Accept p' -> in_fragment p' -> static_typed (teqD (p_types p')) p') ->
  (* topo_reachable *)
  (forall p p' md c, typecheck p = Accept p' -> in_fragment p' -> is_np md = false ->
                     reachable (p_types p') (p_funs p') md (init_config p') c -> Topo c) ->
  forall p p', typecheck p = Accept p' -> in_fragment p' ->
  forall fuel pick c,
    exec_run fuel pick Async (p_types p') (p_funs p') (init_config p') = RQuiescent c ->
    exists Δ : gmap cid sty,
    (forall self pr, procs c !! self = Some pr ->
       exists k st T, action_of Async (p_types p') pr = ARecv k /\ own_chan pr k /\
                      Δ !! k = Some T /\ pol_of_ty (p_types p') T Neg /\
                      chans c !! k = Some st /\ ch_buf st = None /\ ch_closed st = false) /\
    (forall k st m, chans c !! k = Some st -> ch_buf st = Some m -> is_pos_rule (m_rule m) = true) /\
    ((forall k, alive c k -> exists o, obj_in c o /\ k ∈ refs o) -> procs c = ∅).
Proof. exact progress_run_partial. Qed.

Theorem C02_progress_sync_partial : forall D F teq, teq_laws D teq -> funs_typed D F teq ->
  forall Δ c, cfg_typed D F teq Δ c -> Topo c -> buffers_empty c -> quiescent Sync D F c ->
    (forall self p, procs c !! self = Some p ->
       exists k, own_chan p k /\
         (action_of Sync D p = ARecv k \/ exists m, action_of Sync D p = ASend k m /\ is_pos_rule (m_rule m) = true)) /\
    ((forall k, (exists self p, procs c !! self = Some p /\ k ∈ cids_of (pr_provs p)) ->
                exists o, obj_in c o /\ k ∈ refs o) -> procs c = ∅).
Proof. exact progress_sync_partial. Qed.

Theorem C02_progress_sync_run_partial : forall teqD : tenv -> sty -> sty -> Prop,
  (forall p p', typecheck p = Accept p' -> teq_laws (p_types p') (teqD (p_types p'))) ->
  (forall p p', typecheck p = Accept p' -> in_fragment p' -> static_typed (teqD (p_types p')) p') ->
  (forall p p' md c, typecheck p = Accept p' -> in_fragment p' -> is_np md = false ->
                     reachable (p_types p') (p_funs p') md (init_config p') c -> Topo c) ->
  forall p p', typecheck p = Accept p' -> in_fragment p' ->
  forall fuel pick c,
    exec_run fuel pick Sync (p_types p') (p_funs p') (init_config p') = RQuiescent c ->
    (forall self pr, procs c !! self = Some pr ->
       exists k, own_chan pr k /\
         (action_of Sync (p_types p') pr = ARecv k \/
          exists m, action_of Sync (p_types p') pr = ASend k m /\ is_pos_rule (m_rule m) = true)) /\
    ((forall k, (exists self pr, procs c !! self = Some pr /\ k ∈ cids_of (pr_provs pr)) ->
                exists o, obj_in c o /\ k ∈ refs o) -> procs c = ∅).
Proof. exact progress_sync_run_partial. Qed.

(* the same without teq_ok and tc_annotations_typed *)
Theorem C02_progress_run_tc_partial : forall p p',
  typecheck p = Accept p' -> in_fragment p' -> prog_syn_ok p = true -> raw_ok p = true ->
  (* topo_runs *)
  (forall md c, is_np md = false -> reachable (p_types p') (p_funs p') md (init_config p') c -> Topo c) ->
  forall fuel pick c,
    exec_run fuel pick Async (p_types p') (p_funs p') (init_config p') = RQuiescent c ->
    exists Δ : gmap cid sty,
    (forall self pr, procs c !! self = Some pr ->
       exists k st T, action_of Async (p_types p') pr = ARecv k /\ own_chan pr k /\
                      Δ !! k = Some T /\ pol_of_ty (p_types p') T Neg /\
                      chans c !! k = Some st /\ ch_buf st = None /\ ch_closed st = false) /\
    (forall k st m, chans c !! k = Some st -> ch_buf st = Some m -> is_pos_rule (m_rule m) = true) /\
    ((forall k, alive c k -> exists o, obj_in c o /\ k ∈ refs o) -> procs c = ∅).
Proof. exact progress_run_tc_partial. Qed.

Theorem C02_progress_sync_run_tc_partial : forall p p',
  typecheck p = Accept p' -> in_fragment p' -> prog_syn_ok p = true -> raw_ok p = true ->
  (forall md c, is_np md = false -> reachable (p_types p') (p_funs p') md (init_config p') c -> Topo c) ->
  forall fuel pick c,
    exec_run fuel pick Sync (p_types p') (p_funs p') (init_config p') = RQuiescent c ->
    (forall self pr, procs c !! self = Some pr ->
       exists k, own_chan pr k /\
         (action_of Sync (p_types p') pr = ARecv k \/
          exists m, action_of Sync (p_types p') pr = ASend k m /\ is_pos_rule (m_rule m) = true)) /\
    ((forall k, (exists self pr, procs c !! self = Some pr /\ k ∈ cids_of (pr_provs pr)) ->
                exists o, obj_in c o /\ k ∈ refs o) -> procs c = ∅).
Proof. exact progress_sync_run_tc_partial. Qed.

(* programs that come out of the parser: prog_syn_ok and raw_ok are theorems (proofs/ParseSynOk.v, ParseRaw.v) *)
Theorem C02_progress_run_parsed_partial : forall txt p p',
  parse_string txt = POk p -> typecheck p = Accept p' -> in_fragment p' ->
  (forall md c, is_np md = false -> reachable (p_types p') (p_funs p') md (init_config p') c -> Topo c) ->
  forall fuel pick c,
    exec_run fuel pick Async (p_types p') (p_funs p') (init_config p') = RQuiescent c ->
    exists Δ : gmap cid sty,
    (forall self pr, procs c !! self = Some pr ->
       exists k st T, action_of Async (p_types p') pr = ARecv k /\ own_chan pr k /\
                      Δ !! k = Some T /\ pol_of_ty (p_types p') T Neg /\
                      chans c !! k = Some st /\ ch_buf st = None /\ ch_closed st = false) /\
    (forall k st m, chans c !! k = Some st -> ch_buf st = Some m -> is_pos_rule (m_rule m) = true) /\
    ((forall k, alive c k -> exists o, obj_in c o /\ k ∈ refs o) -> procs c = ∅).
Proof. exact progress_run_parsed_partial. Qed.

Theorem C02_progress_sync_run_parsed_partial : forall txt p p',
  parse_string txt = POk p -> typecheck p = Accept p' -> in_fragment p' ->
  (forall md c, is_np md = false -> reachable (p_types p') (p_funs p') md (init_config p') c -> Topo c) ->
  forall fuel pick c,
    exec_run fuel pick Sync (p_types p') (p_funs p') (init_config p') = RQuiescent c ->
    (forall self pr, procs c !! self = Some pr ->
       exists k, own_chan pr k /\
         (action_of Sync (p_types p') pr = ARecv k \/
          exists m, action_of Sync (p_types p') pr = ASend k m /\ is_pos_rule (m_rule m) = true)) /\
    ((forall k, (exists self pr, procs c !! self = Some pr /\ k ∈ cids_of (pr_provs pr)) ->
                exists o, obj_in c o /\ k ∈ refs o) -> procs c = ∅).
Proof. exact progress_sync_run_parsed_partial. Qed.

(* no premise beyond parsed / accepted / closed *)
Theorem C02_progress_run_parsed : forall txt p p',
  parse_string txt = POk p -> typecheck p = Accept p' -> in_fragment p' ->
  forall fuel pick c,
    exec_run fuel pick Async (p_types p') (p_funs p') (init_config p') = RQuiescent c ->
    exists Δ : gmap cid sty,
    (forall self pr, procs c !! self = Some pr ->
       exists k st T, action_of Async (p_types p') pr = ARecv k /\ own_chan pr k /\
                      Δ !! k = Some T /\ pol_of_ty (p_types p') T Neg /\
                      chans c !! k = Some st /\ ch_buf st = None /\ ch_closed st = false) /\
    (forall k st m, chans c !! k = Some st -> ch_buf st = Some m -> is_pos_rule (m_rule m) = true) /\
    ((forall k, alive c k -> exists o, obj_in c o /\ k ∈ refs o) -> procs c = ∅).
Proof. exact progress_run_parsed. Qed.

Theorem C02_progress_sync_run_parsed : forall txt p p',
  parse_string txt = POk p -> typecheck p = Accept p' -> in_fragment p' ->
  forall fuel pick c,
    exec_run fuel pick Sync (p_types p') (p_funs p') (init_config p') = RQuiescent c ->
    (forall self pr, procs c !! self = Some pr ->
       exists k, own_chan pr k /\
         (action_of Sync (p_types p') pr = ARecv k \/
          exists m, action_of Sync (p_types p') pr = ASend k m /\ is_pos_rule (m_rule m) = true)) /\
    ((forall k, (exists self pr, procs c !! self = Some pr /\ k ∈ cids_of (pr_provs pr)) ->
                exists o, obj_in c o /\ k ∈ refs o) -> procs c = ∅).
Proof. exact progress_sync_run_parsed. Qed.

(* the non-polarized mode *)
Theorem C02_progress_np_partial : forall D F teq, teq_laws D teq -> funs_typed D F teq ->
  forall Δ c, cfg_typed D F teq Δ c -> Topo c -> buffers_empty c -> quiescent NP D F c ->
    (forall self p, procs c !! self = Some p ->
       exists k, own_chan p k /\
         (action_of NP D p = ARecv k \/ exists m, action_of NP D p = ASend k m /\ is_pos_rule (m_rule m) = true)) /\
    ((forall k, (exists self p, procs c !! self = Some p /\ k ∈ cids_of (pr_provs p)) ->
                exists o, obj_in c o /\ k ∈ refs o) -> procs c = ∅).
Proof. exact progress_np_partial. Qed.

Theorem C02_progress_np_run_parsed : forall txt p p',
  parse_string txt = POk p -> typecheck p = Accept p' -> in_fragment p' ->
  forall fuel pick c,
    exec_run fuel pick NP (p_types p') (p_funs p') (init_config p') = RQuiescent c ->
    (forall self pr, procs c !! self = Some pr ->
       exists k, own_chan pr k /\
         (action_of NP (p_types p') pr = ARecv k \/
          exists m, action_of NP (p_types p') pr = ASend k m /\ is_pos_rule (m_rule m) = true)) /\
    ((forall k, (exists self pr, procs c !! self = Some pr /\ k ∈ cids_of (pr_provs pr)) ->
                exists o, obj_in c o /\ k ∈ refs o) -> procs c = ∅).
Proof. exact progress_np_run_parsed. Qed.

(* non-vacuity: the example program of the fragment ends in quiescence with no process left
   (synchronous: the top-level provider stays blocked offering its result on a client-less channel) *)
Example C02_example_runs :
  run_example Async (fun _ _ => 0%nat) = Some (0%nat, ["served"; "done"], true) /\
  run_example Async (fun _ n => pred n) = Some (0%nat, ["served"; "done"], true) /\
  run_example Sync (fun _ _ => 0%nat) = Some (1%nat, ["served"; "done"], true) /\
  run_example_drop Async (fun _ _ => 0%nat) = Some (0%nat, ["dropped"], true) /\
  run_example_drop Async (fun _ n => pred n) = Some (0%nat, ["dropped"], true) /\
  run_example_split Async (fun _ _ => 0%nat) = Some (0%nat, ["made"; "done"], true) /\
  run_example_split Sync (fun _ _ => 0%nat) = Some (1%nat, ["made"; "done"], true).
Proof. repeat split; vm_compute; reflexivity. Qed.

Print Assumptions C02_progress_partial.
Print Assumptions C02_progress_run_partial.
Print Assumptions C02_progress_sync_partial.
Print Assumptions C02_progress_sync_run_partial.
Print Assumptions C02_progress_run_tc_partial.
Print Assumptions C02_progress_sync_run_tc_partial.
Print Assumptions C02_progress_run_parsed_partial.
Print Assumptions C02_progress_sync_run_parsed_partial.
Print Assumptions C02_progress_run_parsed.
Print Assumptions C02_progress_sync_run_parsed.
Print Assumptions C02_progress_np_partial.
Print Assumptions C02_progress_np_run_parsed.
Print Assumptions C02_example_runs.
