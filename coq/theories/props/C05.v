(* C05 — substructural discipline: every channel used once unless dropped or split.
   Statement: spec/Linear.v (untyped path counting: LinearProgram) and spec/Indep.v
   (DropSplitProgram: a drop needs a weakenable mode, a split a contractable mode, stated on the
   sequents of spec/Sequents.v).  Premise of the statements over arbitrary ASTs: uninit_prog (names
   carry no channel); it is proved of everything parse_string returns (C05_parsed_uninit), so the
   statements for parsed programs (C05_program_parsed) have no premise besides acceptance.  (That the mode recorded
   for a type definition is the mode of its body is established by the checker since the fix of F23.)
   History: the full statement was false of the tree as first pinned: F4, F13, F20 (fixed earlier)
   and F21, F22 (found by this proof: binders that shadow a live name / the provider's name; fixed). *)
Require Import Grits.Base Grits.Forms Grits.Expand Grits.Tc Grits.TcTop
               Grits.spec.Linear Grits.spec.Sequents Grits.spec.Indep
               Grits.spec.Oracle Grits.proofs.LinearProofs Grits.proofs.LinearTop Grits.proofs.IndepTop Grits.proofs.OracleProofs Grits.proofs.ParsedUninit Grits.proofs.Witnesses.

(* one body: parameters / free names used exactly once on every control path, names out of scope
   never, every bound name exactly once in its scope, no binder re-binds a live name or the provider *)
Theorem C05_body : forall D Sg g sh pty f f',
  uninit_form f = true -> shf g (shid sh) -> tc_form D Sg g sh pty f = TOk f' ->
  LinearNames (map fst g) (shid sh) f.
Proof. exact tc_form_linear. Qed.

Theorem C05_program : forall p p', uninit_prog p = true -> typecheck p = Accept p' -> LinearProgram p.
Proof. exact tc_linear. Qed.

(* closed forms for parsed programs: the premise uninit_prog is a theorem about parser output
   (proofs/ParsedUninit.v, from ParseRaw.parse_raw_ok over the LR-driver invariant) *)
Theorem C05_parsed_uninit : forall s p, parse_string s = POk p -> uninit_prog p = true.
Proof. exact parsed_uninit. Qed.
Theorem C05_program_parsed : forall s p p', parse_string s = POk p -> typecheck p = Accept p' -> LinearProgram p.
Proof. exact tc_linear_parsed. Qed.
Theorem C05_oracle_agrees_parsed : forall s p p', parse_string s = POk p -> typecheck p = Accept p' -> linear_program_b p = true.
Proof. exact lin_oracle_agrees_parsed. Qed.

Theorem C05_drop_split_modes : forall p p', typecheck p = Accept p' -> DropSplitProgram p p'.
Proof. exact tc_drop_split_program. Qed.

(* the executable oracle of the check decides the statement, and the model never accepts what it flags *)
Theorem C05_oracle_exact : forall p, linear_program_b p = true <-> LinearProgram p.
Proof. exact linear_program_b_iff. Qed.
Theorem C05_oracle_agrees : forall p p', uninit_prog p = true -> typecheck p = Accept p' -> linear_program_b p = true.
Proof. exact lin_oracle_agrees. Qed.
Theorem C05_oracle_modes_agrees : forall p p', typecheck p = Accept p' -> drop_split_program_b p = true.
Proof. exact drop_split_oracle_agrees. Qed.

(* non-vacuity: an accepted program with drop, split, cuts and a case; its path counts *)
Example C05_example_accepted : parse_string ex_text = POk ex_p /\ typecheck ex_p = Accept ex_p' /\ uninit_prog ex_p = true.
Proof. exact (conj ex_parses (conj ex_accepted ex_uninit)). Qed.
Example C05_example_paths :
  map (fun fd => uses None "x" (fn_body fd)) (p_funs ex_p) = [[1; 1]; [1]] /\
  map (fun fd => uses None "q" (fn_body fd)) (p_funs ex_p) = [[0; 0]; [0]].
Proof. exact ex_paths. Qed.
Example C05_example_linear : LinearProgram ex_p.
Proof. exact (tc_linear _ _ ex_uninit ex_accepted). Qed.

Print Assumptions C05_body.
Print Assumptions C05_program.
Print Assumptions C05_parsed_uninit.
Print Assumptions C05_program_parsed.
Print Assumptions C05_oracle_agrees_parsed.
Print Assumptions C05_drop_split_modes.
Print Assumptions C05_oracle_exact.
Print Assumptions C05_oracle_agrees.
Print Assumptions C05_oracle_modes_agrees.
