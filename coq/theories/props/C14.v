(* props/C14.v — lexical scoping: verdict and outcome invariant under renaming.
   For ALL programs p (AST after ParseString) and ALL renamings r (five maps: channel identifiers,
   function names, type names, choice labels, print labels) that are ADMISSIBLE for p — injective on
   the names of each class that occur in p, the identifier "" of `self` kept:
     * the model of process.Typecheck gives r(p) the verdict class of p, and the annotated program it
       returns for r(p) is the renamed annotated program of p (`verdict_invariant[_strong]`);
     * for an accepted p the interpreter model runs the two annotated programs in LOCK STEP under
       every scheduler oracle, in each of the three execution modes, for every fuel: same kind of
       result, same blocked processes, and the printed labels of r(p) are the images under r of the
       printed labels of p, in the same order (`outcome_invariant`).
   CLOSED forms (`verdict_invariant_closed[_strong]`, `outcome_invariant_closed`): no hypothesis besides
   admissibility and `prog_syn_ok` of the program and of its image (every type is syntactically what
   the parser produces: names and labels are LABEL lexemes, choices are non-empty — "avoiding keywords"
   at the level of the AST).  EqualType keys its memo by PRINTED types; that the printed keys of renamed
   types coincide exactly when the original keys do (`key_faithful_lex`) follows from the injectivity
   of printing on such types with proper modes (C15), and every type the checker compares has proper
   modes because it has passed CheckTypeWellFormedness first (the invariant threaded in RenameTc.v).
   The general forms (`verdict_invariant`, `outcome_invariant`) are for names that are ARBITRARY
   strings and keep that fact as the hypothesis `key_faithful_on r p` (trivially true when only
   channel identifiers or function names are renamed: tc_chan_equivariant).
   Permutations: the verdict is unchanged by permuting the type definitions and by permuting the
   function definitions of a program (`perm_types_invariant`, `perm_funs_invariant`), by permuting
   function, PROCESS and assumed-name declarations (`perm_decls_invariant`: through the declarative
   judgement of C07, which the checker decides; the F29 acyclicity test is permutation invariant), and the AST that
   ParseString builds does not depend on how declarations of different kinds are interleaved
   (`expand_kinds`; `exec` statements are numbered in their own relative order).
   Run-time names: Name.Equal / Name.Substitute / Form.Substitute and the receive, call and cut
   transitions do not depend on the identifiers of initialised names (`subst_ident_irrelevant`,
   `receive_ident_irrelevant`, `call_ident_irrelevant`).
   For TYPED configurations (spec/RtTyping.v — every reachable configuration of an accepted closed
   program, by C01/C03's invariants) the step of the interpreter does not depend on the identifiers of
   initialised names NOR of `self` names, for every choice in the three modes, including drop / split /
   DUP / the GC request (`stepT_erase`, `stepT_sim`: this closes `step_sim_statement` of RenameSim.v for
   typed configurations).  PER-DECLARATION renamings (not one injective map for the program): if every
   function and every process body is renamed by ITS OWN injective identifier map (process names kept),
   typed related configurations take related steps (`step_rel`), and accepted programs run in lock step
   in the two polarized modes: same result kind, same printed labels in the same order, same live
   processes (`run_decl_alpha`).
   For SOURCES: `typecheck_decl` / `verdict_decl` — the checker accepts a per-declaration renamed
   source iff it accepts the original and its annotated output is the per-declaration renamed output
   (the checker reads a signature only through name, type and parameter TYPES: `tc_form_sg`; the
   preliminary checks read a body only through the identifiers of its free names, which are kept);
   `run_decl_src` — verdict and outcome in the THREE modes with no premise on the checker's outputs.
   GENERAL ALPHA-EQUIVALENCE inside one declaration (two binders of one declaration sharing an identifier,
   shadowing): `alpha_step_partial`, `run_alpha_partial`, `C14_run_alpha_partial` — outcome invariance for
   accepted sources whose annotated outputs are alpha-equivalent declaration by declaration (spec/AlphaEq.v).
   NOT proved: the checker half for such variants (`run_alpha_invariant` stays a Definition). *)
From stdpp Require Import gmap strings.
Require Import Grits.Base Grits.STypes Grits.Forms Grits.Subst Grits.Expand Grits.TcDeps Grits.TcTop Grits.Runtime.
Require Import Grits.spec.Rename Grits.proofs.RenameTypes Grits.proofs.RenameSubst Grits.proofs.RenameTc
               Grits.proofs.RenameExt Grits.proofs.RenameRun Grits.proofs.RenameSim Grits.proofs.PermTc
               Grits.proofs.RenameKeys Grits.proofs.C14Main Grits.proofs.C14Closed Grits.proofs.C14Examples
               Grits.proofs.RenameSimT Grits.proofs.RenameAlpha Grits.proofs.C14Alpha Grits.proofs.C14Decl.
Require Grits.proofs.TcDeclRename Grits.Tc.
Require Grits.spec.Alpha Grits.spec.AlphaEq Grits.proofs.AlphaSubst Grits.proofs.AlphaFree Grits.proofs.AlphaStep Grits.proofs.AlphaExamples Grits.proofs.AlphaRun Grits.proofs.C14AlphaEq.
Require Grits.spec.RtTyping Grits.proofs.RtTheorems Grits.proofs.RtTcSyn Grits.proofs.DeterminismAll.
Require Grits.spec.SynOk Grits.proofs.TypingVerdict Grits.proofs.DeclPerm Grits.proofs.VerdictInvariant.
Require Import Coq.Sorting.Permutation.

Theorem verdict_invariant : forall r p, admissible r p -> key_faithful_on r p ->
  verdict_class (typecheck (rn_program r p)) = verdict_class (typecheck p).
Proof. exact C14Main.verdict_invariant. Qed.

Theorem verdict_invariant_strong : forall r p, admissible r p -> key_faithful_on r p ->
  exists r', ginjective r' /\ agree r' r (program_atoms p) /\ (forall x, rp r' x = rp r x) /\
             typecheck (rn_program r p) = rn_verdict r' (typecheck p).
Proof. exact C14Main.verdict_invariant_strong. Qed.

(* ---- closed: no key hypothesis, for programs whose types are syntactically well formed *)
Theorem verdict_invariant_closed : forall r p, admissible r p ->
  SynOk.prog_syn_ok p = true -> SynOk.prog_syn_ok (rn_program r p) = true ->
  verdict_class (typecheck (rn_program r p)) = verdict_class (typecheck p).
Proof. exact C14Closed.verdict_invariant_closed. Qed.

Theorem verdict_invariant_closed_strong : forall r p, admissible r p ->
  SynOk.prog_syn_ok p = true -> SynOk.prog_syn_ok (rn_program r p) = true ->
  exists r', ginjective r' /\ agree r' r (program_atoms p) /\ (forall x, rp r' x = rp r x) /\
             typecheck (rn_program r p) = rn_verdict r' (typecheck p).
Proof. exact C14Closed.verdict_invariant_closed_strong. Qed.

Theorem outcome_invariant_closed : forall r p p', admissible r p ->
  SynOk.prog_syn_ok p = true -> SynOk.prog_syn_ok (rn_program r p) = true -> typecheck p = Accept p' ->
  exists q', typecheck (rn_program r p) = Accept q' /\
    forall fuel pick md,
      kind_of (run_program fuel pick md q') = kind_of (run_program fuel pick md p') /\
      labels (final_cfg (run_program fuel pick md q')) = map (rp r) (labels (final_cfg (run_program fuel pick md p'))) /\
      live md (p_types q') (final_cfg (run_program fuel pick md q')) = live md (p_types p') (final_cfg (run_program fuel pick md p')).
Proof. exact C14Closed.outcome_invariant_closed. Qed.

(* the printed memo keys of EqualType: renamed keys collide exactly when the original ones do *)
Theorem key_faithful_lex : forall r, injective (rt r) -> injective (rl r) -> forall s t s' t',
  okt (lexT r) (lexL r) pm True s -> okt (lexT r) (lexL r) pm True t ->
  okt (lexT r) (lexL r) pm True s' -> okt (lexT r) (lexL r) pm True t' ->
  (eq_key (rn_sty r s) (rn_sty r t) = eq_key (rn_sty r s') (rn_sty r t') <-> eq_key s t = eq_key s' t').
Proof. exact RenameKeys.key_faithful_lex. Qed.

Theorem tc_label_equivariant : forall l p, inj_on (a_label (program_atoms p)) l -> key_faithful_on (ren_labels l) p ->
  verdict_class (typecheck (rn_labels l p)) = verdict_class (typecheck p).
Proof. exact C14Main.tc_label_equivariant. Qed.

Theorem tc_chan_equivariant : forall c p, inj_on ("" :: a_chan (program_atoms p)) c -> c "" = "" ->
  verdict_class (typecheck (rn_program (Ren c (fun x => x) (fun x => x) (fun x => x) (fun x => x)) p)) = verdict_class (typecheck p).
Proof. exact C14Main.tc_chan_equivariant. Qed.

Theorem outcome_invariant : forall r p p', admissible r p -> key_faithful_on r p -> typecheck p = Accept p' ->
  exists q', typecheck (rn_program r p) = Accept q' /\
    forall fuel pick md,
      kind_of (run_program fuel pick md q') = kind_of (run_program fuel pick md p') /\
      labels (final_cfg (run_program fuel pick md q')) = map (rp r) (labels (final_cfg (run_program fuel pick md p'))) /\
      live md (p_types q') (final_cfg (run_program fuel pick md q')) = live md (p_types p') (final_cfg (run_program fuel pick md p')).
Proof. exact C14Main.outcome_invariant. Qed.

(* the interpreter alone (no typechecking hypothesis): one step commutes with a globally injective renaming *)
Theorem step_equivariant : forall r, injective (rc r) -> rc r "" = "" -> injective (rf r) -> injective (rt r) -> injective (rl r) ->
  forall md D F c ch, step md (rn_tenv r D) (map (rn_fundef r) F) (rn_cfg r c) ch = rn_sres r (step md D F c ch).
Proof. exact step_rn. Qed.

Theorem run_label_equivariant : forall l, injective l -> forall fuel pick md p,
  let R := run_program fuel pick md p in
  let R' := run_program fuel pick md (rn_labels l p) in
  kind_of R' = kind_of R /\ labels (final_cfg R') = map l (labels (final_cfg R)).
Proof. exact RenameRun.run_label_equivariant. Qed.

Theorem run_chan_equivariant : forall c, injective c -> c "" = "" -> forall fuel pick md p,
  let r := Ren c (fun x => x) (fun x => x) (fun x => x) (fun x => x) in
  let R := run_program fuel pick md p in
  let R' := run_program fuel pick md (rn_program r p) in
  kind_of R' = kind_of R /\ labels (final_cfg R') = labels (final_cfg R).
Proof. exact RenameRun.run_chan_equivariant. Qed.

(* substitution commutes with an injective identifier renaming, for all forms *)
Theorem subst_equivariant : forall r, injective (rc r) -> rc r "" = "" -> forall old new f,
  subst (rn_name r old) (rn_name r new) (rn_form r f) = rn_form r (subst old new f).
Proof. exact subst_rn1. Qed.

(* every admissible renaming coincides on the program with a globally injective one *)
Theorem admissible_globalize : forall r p, admissible r p ->
  ginjective (globalize r p) /\ rn_program (globalize r p) p = rn_program r p /\ agree (globalize r p) r (program_atoms p).
Proof. exact globalize_spec. Qed.

(* permutation of declarations *)
Theorem perm_types_invariant : forall p D', Permutation (p_types p) D' ->
  PermTc.accepts (typecheck (with_types D' p)) = PermTc.accepts (typecheck p).
Proof. exact PermTc.perm_types_invariant. Qed.

Theorem perm_funs_invariant : forall p fs', Permutation (p_funs p) fs' ->
  PermTc.accepts (typecheck (with_funs fs' p)) = PermTc.accepts (typecheck p).
Proof. exact PermTc.perm_funs_invariant. Qed.

(* functions, processes and assumed names in any order (types in place) *)
Theorem perm_decls_invariant : forall p p', DeclPerm.decl_perm p p' ->
  (TypingVerdict.accepts p <-> TypingVerdict.accepts p').
Proof. exact VerdictInvariant.verdict_invariant_perm. Qed.

Theorem expand_kinds : forall l l',
  filter is_proc l = filter is_proc l' -> filter is_fun l = filter is_fun l' -> filter is_type l = filter is_type l' ->
  filter is_assume l = filter is_assume l' -> filter is_exec l = filter is_exec l' ->
  expand l = expand l'.
Proof. exact PermTc.expand_kinds. Qed.

(* identifiers of initialised names are irrelevant (nn erases them) *)
Theorem subst_ident_irrelevant : forall old new f, sc old new -> nf (subst (nn old) (nn new) (nf f)) = nf (subst old new f).
Proof. exact subst_nn1. Qed.

Theorem receive_ident_irrelevant : forall self p m, wfb (pr_body0 p) ->
  rule_eqb (m_rule m) RGC = false -> (match pr_body0 p with FFwd _ _ true => False | _ => True end) ->
  neres (on_message self (np p) (nm m)) = neres (on_message self p m).
Proof. exact on_message_sim. Qed.

Theorem call_ident_irrelevant : forall F fn args, Forall wf_fun F ->
  option_map nf (call_body F fn (map nn args)) = option_map nf (call_body F fn args).
Proof. exact call_body_sim. Qed.

(* typed configurations: identifiers of initialised AND self names are irrelevant, every transition *)
Theorem stepT_erase : forall D F teq, RtTyping.funs_typed D F teq -> forall md Δ c ch, RtTyping.cfg_typed D F teq Δ c ->
  nsres' (step md D F (ncfg' c) ch) = nsres' (step md D F c ch).
Proof. exact RenameSimT.stepT_erase. Qed.

Theorem stepT_sim : forall D F teq, RtTyping.funs_typed D F teq -> forall md Δ Δ' c c' ch,
  RtTyping.cfg_typed D F teq Δ c -> RtTyping.cfg_typed D F teq Δ' c' -> cfgT_sim c c' ->
  nsres' (step md D F c ch) = nsres' (step md D F c' ch).
Proof. exact RenameSimT.stepT_sim. Qed.

(* per-declaration injective renamings *)
Theorem step_rel : forall D F F' teq, RtTyping.funs_typed D F teq -> RtTyping.funs_typed D F' teq -> Forall2 frel F F' ->
  forall md Δ Δ' c c' ch, RtTyping.cfg_typed D F teq Δ c -> RtTyping.cfg_typed D F' teq Δ' c' -> crel c c' ->
  srrel (step md D F c ch) (step md D F' c' ch).
Proof. exact RenameAlpha.step_rel. Qed.

Theorem run_decl_alpha : forall p q p' q' md pick fuel,
  typecheck p = Accept p' -> typecheck q = Accept q' ->
  RtTheorems.in_fragment p' -> RtTheorems.in_fragment q' ->
  SynOk.prog_syn_ok p = true -> SynOk.prog_syn_ok q = true -> RtTcSyn.raw_ok p = true -> RtTcSyn.raw_ok q = true ->
  DeterminismAll.all_src_b p = true -> DeterminismAll.all_src_b q = true ->
  decl_renamed p' q' ->
  kind_of (run_program fuel pick md q') = kind_of (run_program fuel pick md p') /\
  labels (final_cfg (run_program fuel pick md q')) = labels (final_cfg (run_program fuel pick md p')) /\
  pids (final_cfg (run_program fuel pick md q')) = pids (final_cfg (run_program fuel pick md p')).
Proof. exact C14Alpha.run_decl_alpha. Qed.

(* ... of SOURCE programs: q is p with every function and every process body renamed by its own
   injective identifier map (types, labels, function / process / assumed names kept).  Verdict: *)
Theorem typecheck_decl : forall p q, src_renamed p q ->
  match typecheck p, typecheck q with
  | Accept p', Accept q' => decl_renamed p' q' /\ p_assumed q' = p_assumed p'
  | Accept _, _ | _, Accept _ => False
  | _, _ => True
  end.
Proof. exact C14Decl.typecheck_decl. Qed.

Theorem verdict_decl : forall p q, src_renamed p q -> PermTc.accepts (typecheck q) = PermTc.accepts (typecheck p).
Proof. exact C14Decl.verdict_decl. Qed.

(* ... and outcome, in the three modes, with no premise about the checker's outputs *)
Theorem run_decl_src : forall p q p' md pick fuel,
  src_renamed p q -> typecheck p = Accept p' -> RtTheorems.in_fragment p' ->
  SynOk.prog_syn_ok p = true -> SynOk.prog_syn_ok q = true -> RtTcSyn.raw_ok p = true -> RtTcSyn.raw_ok q = true ->
  DeterminismAll.all_src_b p = true -> DeterminismAll.all_src_b q = true ->
  exists q', typecheck q = Accept q' /\
    kind_of (run_program fuel pick md q') = kind_of (run_program fuel pick md p') /\
    labels (final_cfg (run_program fuel pick md q')) = labels (final_cfg (run_program fuel pick md p')) /\
    pids (final_cfg (run_program fuel pick md q')) = pids (final_cfg (run_program fuel pick md p')).
Proof. exact C14Decl.run_decl_src. Qed.

(* the checker reads a signature only through its name, its type and the types of its parameters *)
Theorem tc_form_sg : forall D Sg Sg', TcDeclRename.sgeq Sg Sg' -> forall f g sh pty, Tc.tc_form D Sg g sh pty f = Tc.tc_form D Sg' g sh pty f.
Proof. intros D Sg Sg' H. exact (proj1 (TcDeclRename.tc_form_sg D Sg Sg' H)). Qed.

(* non-vacuity on a concrete program: the repaired F24 reproducer and a collision-rich renaming *)
Theorem example_renamed_ast : option_map (rn_program ex_ren) (parsed ex_text) = parsed ex_text_renamed.
Proof. exact ex_rename_parse. Qed.
Theorem example_admissible : forall p, parsed ex_text = Some p -> admissible ex_ren p.
Proof. exact ex_admissible. Qed.
Theorem example_runs : run_text Async pick_first ex_text = Some (KQuiescent, ["before"; "after"]) /\
                       run_text Async pick_first ex_text_renamed = Some (KQuiescent, ["avant"; "apres"]).
Proof. exact ex_run_async. Qed.

(* ---- general alpha-equivalence inside one declaration (spec/AlphaEq.v: `aeq`, bodies up to channels).
   The ingredients (the assembled step / run / program theorems follow below): A1 — Form.Substitute respects
   aeq (an entry anywhere in the correspondence; the substitution may stop earlier on one side); FreeNames
   respects aeq; the transitions of ONE process on erased bodies: reacting to a message (receive, case, wait,
   shift, forward / drop requests, positive forwards) and the internal transitions cut, drop, split, print. *)
Theorem alpha_subst_gen_partial : forall X Y c e2, chan X = None -> chan Y = None -> ident X <> "" -> ident Y <> "" ->
  AlphaEq.isvar c = false -> ident c = "" ->
  forall f g e1 bl br, AlphaSubst.modes X Y e1 bl br ->
    AlphaEq.aeq (e1 ++ (ident X, ident Y) :: e2) f g -> AlphaEq.aeq (e1 ++ e2) (AlphaSubst.msub bl X c f) (AlphaSubst.msub br Y c g).
Proof. intros X Y c e2 H1 H2 H3 H4 H5 H6. exact (proj1 (AlphaSubst.aeq_subst_gen X Y c e2 H1 H2 H3 H4 H5 H6)). Qed.

Theorem alpha_subst_partial : forall e X Y c c' k k', AlphaEq.bnd X Y -> AlphaEq.isvar c = false -> nn' c' = nn' c ->
  AlphaEq.aeq ((ident X, ident Y) :: e) k k' -> AlphaEq.aeq e (nf' (subst X c k)) (nf' (subst Y c' k')).
Proof. exact AlphaSubst.aeq_subst_top. Qed.

Theorem alpha_subst_chan_partial : forall old new f g e, initialized old = true -> initialized new = true -> ident new = "" ->
  AlphaEq.aeq e f g -> AlphaEq.aeq e (subst old new f) (subst old new g).
Proof. intros old new f g e H1 H2 H3. exact (proj1 (AlphaSubst.aeq_subst_chan old new H1 H2 H3) f g e). Qed.

Theorem alpha_free_names_partial : forall f g, AlphaEq.aeq [] f g -> free_names f = free_names g.
Proof. exact AlphaFree.aeq_free_closed. Qed.

Theorem alpha_on_message_partial : forall self q q' m, pr_provs q' = pr_provs q -> pr_next q' = pr_next q ->
  AlphaEq.aeq [] (pr_body0 q) (pr_body0 q') -> AlphaStep.mgood m ->
  AlphaStep.rrelA (on_message self q m) (on_message self q' m).
Proof. exact AlphaStep.on_message_A. Qed.

Theorem alpha_internal_partial : forall md F F' self q q', pr_provs q' = pr_provs q -> pr_next q' = pr_next q ->
  AlphaEq.aeq [] (pr_body0 q) (pr_body0 q') -> AlphaStep.is_callA (pr_body0 q) = false ->
  AlphaStep.rrelA (internal_effect md F self q) (internal_effect md F' self q').
Proof. exact AlphaStep.internal_effect_A. Qed.

(* non-vacuity: two sequential binders of one declaration sharing an identifier vs two identifiers *)
Theorem example_alpha_bodies : AlphaExamples.bodies_aeq AlphaExamples.seq_text AlphaExamples.seq_text_alpha.
Proof. exact AlphaExamples.seq_aeq. Qed.

(* ---- general alpha-equivalence, assembled (proofs/AlphaRun.v, C14AlphaEq.v).  `crelA`: same pids, for every
   process the same providers and counter up to identifiers of channels and bodies `aeq []` after erasure,
   related buffered messages, the same output.  `frelA`: function tables related declaration by declaration
   (same name, type and explicit provider name, parameters pairwise related binders, erased bodies `aeq`
   under the stack of parameters).  `alpha_step_partial`: EVERY choice of `step`, the three modes (DUP and
   calls included).  `run_alpha_partial`: lock-step runs from related configurations, every oracle and fuel.
   `C14_run_alpha_partial`: accepted sources whose ANNOTATED outputs are related by `decl_aeq`.
   PARTIAL w.r.t. `RenameRun.run_alpha_invariant` (kept as the Definition of the full goal): missing is the
   checker half (A3) — that `Alpha.alpha_program p q` and acceptance of both sources imply `decl_aeq p' q'` of the
   annotated outputs (and, for alpha-variants that respect the checker's freshness conditions, that
   acceptance of one implies acceptance of the other); `decl_aeq` also asks that the keyword `self` is not
   used as a binder and that the explicit provider name of a function is the same on both sides. *)
Theorem alpha_step_partial : forall D F F' teq, RtTyping.funs_typed D F teq -> RtTyping.funs_typed D F' teq ->
  Forall2 AlphaRun.frelA F F' -> forall md Δ Δ' c c' ch,
  RtTyping.cfg_typed D F teq Δ c -> RtTyping.cfg_typed D F' teq Δ' c' -> AlphaRun.crelA c c' ->
  AlphaRun.srrelA (step md D F c ch) (step md D F' c' ch).
Proof. exact AlphaRun.step_relA. Qed.

Theorem run_alpha_partial : forall D F F' teq, RtTyping.funs_typed D F teq -> RtTyping.funs_typed D F' teq ->
  Forall2 AlphaRun.frelA F F' -> forall md (I I' : config -> Prop),
  (forall c, I c -> exists Δ, RtTyping.cfg_typed D F teq Δ c) -> (forall c ch d, I c -> step md D F c ch = SStep d -> I d) ->
  (forall c, I' c -> exists Δ, RtTyping.cfg_typed D F' teq Δ c) -> (forall c ch d, I' c -> step md D F' c ch = SStep d -> I' d) ->
  forall pick fuel c c', I c -> I' c' -> AlphaRun.crelA c c' ->
  kind_of (exec_run fuel pick md D F' c') = kind_of (exec_run fuel pick md D F c) /\
  labels (final_cfg (exec_run fuel pick md D F' c')) = labels (final_cfg (exec_run fuel pick md D F c)) /\
  pids (final_cfg (exec_run fuel pick md D F' c')) = pids (final_cfg (exec_run fuel pick md D F c)).
Proof. exact AlphaRun.run_relA_labels. Qed.

Theorem C14_run_alpha_partial : forall p q p' q' md pick fuel,
  typecheck p = Accept p' -> typecheck q = Accept q' ->
  RtTheorems.in_fragment p' -> RtTheorems.in_fragment q' ->
  SynOk.prog_syn_ok p = true -> SynOk.prog_syn_ok q = true -> RtTcSyn.raw_ok p = true -> RtTcSyn.raw_ok q = true ->
  DeterminismAll.all_src_b p = true -> DeterminismAll.all_src_b q = true ->
  C14AlphaEq.decl_aeq p' q' ->
  kind_of (run_program fuel pick md q') = kind_of (run_program fuel pick md p') /\
  labels (final_cfg (run_program fuel pick md q')) = labels (final_cfg (run_program fuel pick md p')) /\
  pids (final_cfg (run_program fuel pick md q')) = pids (final_cfg (run_program fuel pick md p')).
Proof. exact C14AlphaEq.run_alpha. Qed.

(* non-vacuity: a function with a renamed parameter and two binders sharing one identifier, a process that
   re-binds x while using it — all premises of C14_run_alpha_partial hold of the two texts *)
Theorem example_alpha_program : AlphaExamples.progs_aeq AlphaExamples.fun_text AlphaExamples.fun_text_alpha.
Proof. exact AlphaExamples.fun_decl_aeq. Qed.
Theorem example_alpha_run : forall p q p' q', parsed AlphaExamples.fun_text = Some p -> parsed AlphaExamples.fun_text_alpha = Some q ->
  typecheck p = Accept p' -> typecheck q = Accept q' -> forall md pick fuel,
  kind_of (run_program fuel pick md q') = kind_of (run_program fuel pick md p') /\
  labels (final_cfg (run_program fuel pick md q')) = labels (final_cfg (run_program fuel pick md p')) /\
  pids (final_cfg (run_program fuel pick md q')) = pids (final_cfg (run_program fuel pick md p')).
Proof. exact AlphaExamples.fun_run_alpha. Qed.

Print Assumptions verdict_invariant.
Print Assumptions verdict_invariant_strong.
Print Assumptions verdict_invariant_closed.
Print Assumptions verdict_invariant_closed_strong.
Print Assumptions outcome_invariant_closed.
Print Assumptions key_faithful_lex.
Print Assumptions perm_decls_invariant.
Print Assumptions tc_label_equivariant.
Print Assumptions tc_chan_equivariant.
Print Assumptions outcome_invariant.
Print Assumptions step_equivariant.
Print Assumptions run_label_equivariant.
Print Assumptions run_chan_equivariant.
Print Assumptions subst_equivariant.
Print Assumptions admissible_globalize.
Print Assumptions perm_types_invariant.
Print Assumptions perm_funs_invariant.
Print Assumptions expand_kinds.
Print Assumptions subst_ident_irrelevant.
Print Assumptions receive_ident_irrelevant.
Print Assumptions call_ident_irrelevant.
Print Assumptions stepT_erase.
Print Assumptions stepT_sim.
Print Assumptions step_rel.
Print Assumptions run_decl_alpha.
Print Assumptions typecheck_decl.
Print Assumptions verdict_decl.
Print Assumptions run_decl_src.
Print Assumptions tc_form_sg.
Print Assumptions example_renamed_ast.
Print Assumptions example_admissible.
Print Assumptions example_runs.
Print Assumptions alpha_subst_gen_partial.
Print Assumptions alpha_subst_partial.
Print Assumptions alpha_subst_chan_partial.
Print Assumptions alpha_free_names_partial.
Print Assumptions alpha_on_message_partial.
Print Assumptions alpha_internal_partial.
Print Assumptions example_alpha_bodies.
Print Assumptions alpha_step_partial.
Print Assumptions run_alpha_partial.
Print Assumptions C14_run_alpha_partial.
Print Assumptions example_alpha_program.
Print Assumptions example_alpha_run.

(* The Go methods the run-time half rests on — the methods `Substitute` of the form types of process/form.go — TRANSLATED
   from the current source on this run (`probe formops`, go/ast -> gen/FormOps.v, a table of the IR
   of FormIR.v): the interpretation of what the code says NOW is the model `Subst.subst` that the
   theorems above are about (which binder stops which substitution, in which order). *)
Require Grits.FormIR Grits.gen.FormOps Grits.proofs.FormOpsAgree.
Theorem C14_formops_structs : FormIR.t_structs FormOps.table = FormIR.expected_structs.
Proof. exact FormOpsAgree.formops_structs. Qed.
Theorem C14_formops_subst_wf : FormIR.subst_table_ok FormOps.table = true.
Proof. exact FormOpsAgree.formops_subst_wf. Qed.
Theorem C14_formops_subst_agrees : forall old new f, FormIR.ir_subst FormOps.table old new f = Subst.subst old new f.
Proof. exact FormOpsAgree.formops_subst_agrees. Qed.
Theorem C14_formops_subst_brs_agrees : forall old new b, FormIR.ir_subst_brs FormOps.table old new b = Subst.subst_brs old new b.
Proof. exact FormOpsAgree.formops_subst_brs_agrees. Qed.

(* FreeNames of the form types and the four list helpers it is written with (translated as small
   list programs): their interpretation is `Subst.free_names` / `append_if_not_self` / `remove_bound` /
   `name_exists` / `merge_names` — which bound names are removed, from which sub-list, merged how. *)
Theorem C14_formops_helpers_wf : FormIR.helpers_ok FormOps.table = true.
Proof. exact FormOpsAgree.formops_helpers_wf. Qed.
Theorem C14_formops_append_agrees : forall n l, FormIR.ir_append_if_not_self FormOps.table n l = Subst.append_if_not_self n l.
Proof. exact FormOpsAgree.formops_append_agrees. Qed.
Theorem C14_formops_remove_agrees : forall l b, FormIR.ir_remove_bound FormOps.table l b = Subst.remove_bound l b.
Proof. exact FormOpsAgree.formops_remove_agrees. Qed.
Theorem C14_formops_exists_agrees : forall l c, FormIR.ir_name_exists FormOps.table l c = Subst.name_exists l c.
Proof. exact FormOpsAgree.formops_exists_agrees. Qed.
Theorem C14_formops_merge_agrees : forall a b, FormIR.ir_merge_names FormOps.table a b = Subst.merge_names a b.
Proof. exact FormOpsAgree.formops_merge_agrees. Qed.
Theorem C14_formops_free_names_agrees : forall f, FormIR.ir_free_names FormOps.table f = Subst.free_names f.
Proof. exact FormOpsAgree.formops_free_names_agrees. Qed.
Theorem C14_formops_free_names_brs_agrees : forall acc b,
  fold_left (FormIR.ir_merge_names FormOps.table) (FormIR.ir_free_names_brs FormOps.table b) acc = Subst.free_names_brs acc b.
Proof. exact FormOpsAgree.formops_free_names_brs_agrees. Qed.
(* FormHasContinuation's case list, and CopyForm: every case goes through the constructor of its own
   type, every Form / slice field reaches the copy through a deep copy (no aliasing between the copy
   and the original: `copy_table_ok`), and on the model's immutable terms CopyForm is the identity up
   to the fields its constructors reset (`copy_norm`: to_drop of a forward, ProviderType of a call). *)
Theorem C14_formops_has_continuation_agrees : forall f, FormIR.ir_has_continuation FormOps.table f = Forms.has_continuation f.
Proof. exact FormOpsAgree.formops_has_continuation_agrees. Qed.
Theorem C14_formops_copy_wf : FormIR.copy_table_ok FormOps.table = true.
Proof. exact FormOpsAgree.formops_copy_wf. Qed.
Theorem C14_formops_copy_agrees : forall f, FormIR.ir_copy FormOps.table f = FormIR.copy_norm f.
Proof. exact FormOpsAgree.formops_copy_agrees. Qed.
Theorem C14_formops_copy_identity : forall f, FormIR.copy_stable f = true -> FormIR.ir_copy FormOps.table f = f.
Proof. exact FormOpsAgree.formops_copy_identity. Qed.

Print Assumptions C14_formops_structs.
Print Assumptions C14_formops_subst_wf.
Print Assumptions C14_formops_subst_agrees.
Print Assumptions C14_formops_subst_brs_agrees.
Print Assumptions C14_formops_helpers_wf.
Print Assumptions C14_formops_append_agrees.
Print Assumptions C14_formops_remove_agrees.
Print Assumptions C14_formops_exists_agrees.
Print Assumptions C14_formops_merge_agrees.
Print Assumptions C14_formops_free_names_agrees.
Print Assumptions C14_formops_free_names_brs_agrees.
Print Assumptions C14_formops_has_continuation_agrees.
Print Assumptions C14_formops_copy_wf.
Print Assumptions C14_formops_copy_agrees.
Print Assumptions C14_formops_copy_identity.

(* Name.Initialized / Name.Equal / Name.Substitute of process/name.go, translated on this run
   (`probe nameops` -> gen/NameOps.v, IR of NameIR.v): what the code says now is Subst.name_equal /
   Subst.name_subst (with the F12 repair: a name without a channel only stands for a variable). *)
Require Grits.NameIR Grits.gen.NameOps Grits.proofs.NameOpsAgree.
Theorem C14_nameops_fields : NameOps.name_fields = NameIR.expected_name_fields.
Proof. exact NameOpsAgree.nameops_fields. Qed.
Theorem C14_nameops_init_wf : NameIR.name_init_ok NameOps.name_ops = true.
Proof. exact NameOpsAgree.nameops_init_wf. Qed.
Theorem C14_nameops_subst_wf : NameIR.name_subst_ok NameOps.name_ops = true.
Proof. exact NameOpsAgree.nameops_subst_wf. Qed.
Theorem C14_nameops_initialized_agrees : forall n, NameIR.ir_initialized NameOps.name_ops n = Subst.initialized n.
Proof. exact NameOpsAgree.nameops_initialized_agrees. Qed.
Theorem C14_nameops_equal_agrees : forall a b, NameIR.ir_name_equal NameOps.name_ops a b = Subst.name_equal a b.
Proof. exact NameOpsAgree.nameops_equal_agrees. Qed.
Theorem C14_nameops_subst_agrees : forall old new n, NameIR.ir_name_subst NameOps.name_ops old new n = Subst.name_subst old new n.
Proof. exact NameOpsAgree.nameops_subst_agrees. Qed.
Print Assumptions C14_nameops_fields.
Print Assumptions C14_nameops_init_wf.
Print Assumptions C14_nameops_subst_wf.
Print Assumptions C14_nameops_initialized_agrees.
Print Assumptions C14_nameops_equal_agrees.
Print Assumptions C14_nameops_subst_agrees.
