(* GlobalsDefs.v — vocabulary of the table of package-level variables and their uses (C19).
   The table itself (gen/Globals.v) is regenerated from the Go source on every run by `probe globals`
   (go/ast + go/types). *)
Require Import Grits.Base.

(* what the declared type of a package-level variable is *)
Inductive gkind : Type :=
| GScalar | GMap | GSlice | GArray | GPointer | GStruct | GFunc | GChan | GIface
| GSync                              (* a type of package sync / sync/atomic, or a struct / array containing one *)
| GOther.                            (* the type could not be determined (it comes from a package that was not loaded) *)

(* syntactic shape of the initialiser *)
Inductive ginit : Type := INone | ILiteral | IIdent | IComposite | IFuncLit | ICall | IOther.

Record gvar : Type := mkGvar {
  g_pkg : string; g_name : string; g_type : string; g_kind : gkind; g_init : ginit;
  g_pipeline : bool                  (* the package is part of the parse / typecheck / execute pipeline *)
}.

(* one syntactic occurrence class of a package-level variable inside a function body or an initialiser:
     URead       the variable (or a field of it) is read as a value that shares no memory with it:
                 a scalar read, len / cap, a comparison, a call of the function it holds;
     UIndexRead  an element is read: m[k] / s[i] on the right-hand side, range;
     UWrite      it, an element, a field or what it points to is assigned, ++ / --, delete, append,
                 copy into, close, send / receive on it, its address is taken, a method with a
                 pointer receiver or any method of a sync type is called on it, or it (a map, slice,
                 pointer, ...) is handed to a function that is not on the translator's fixed list of
                 functions known not to modify their arguments;
     UEscape     anything else: an alias of it is created (assigned to a local, returned, stored),
                 a method value is taken, an interface method is called, its type is unknown.
                 Treated as a write. *)
Inductive ukind : Type := URead | UIndexRead | UWrite | UEscape.

Record guse : Type := mkGuse {
  u_vpkg : string; u_var : string;   (* the variable: package (directory; import path when outside the module), name *)
  u_fpkg : string; u_fn : string;    (* the enclosing function: package, name (Type.method; var:x = the initialiser of x) *)
  u_kind : ukind;
  u_closure : bool;                  (* the use is inside a function literal (which may run later than its enclosing function) *)
  u_count : nat                      (* number of occurrences with exactly these attributes *)
}.

Definition is_mutation (k : ukind) : bool := match k with UWrite | UEscape => true | _ => false end.

(* code that runs exactly once, before main: the bodies of func init() and the package-level
   initialisers — but not the function literals inside them, which may be stored and run later *)
Definition init_context (u : guse) : bool :=
  (String.eqb (u_fn u) "init" || String.prefix "var:" (u_fn u)) && negb (u_closure u).

Definition gid : Type := (string * string)%type.
Definition gid_eqb (a b : gid) : bool := String.eqb (fst a) (fst b) && String.eqb (snd a) (snd b).
Definition u_gid (u : guse) : gid := (u_vpkg u, u_var u).
Definition u_fid (u : guse) : gid := (u_fpkg u, u_fn u).
Definition g_gid (g : gvar) : gid := (g_pkg g, g_name g).
