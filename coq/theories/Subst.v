(* Subst.v — Name.Equal / Name.Substitute (process/name.go) and Form.Substitute / FreeNames
   (process/form.go).  Go mutates in place; the model returns the new term.
   Name.Substitute is modelled as repaired (fix for finding F12): a name without a channel is only
   replaced when `old` has no channel either. *)
Require Import Grits.Base Grits.ModeDefs Grits.STypes Grits.Forms.

Definition initialized (n : name) : bool := match chan n with Some _ => true | None => false end.

Definition cid_eqb (a b : cid) : bool := if list_eq_dec Nat.eq_dec a b then true else false.
Definition chan_eqb (a b : option cid) : bool :=
  match a, b with
  | Some x, Some y => cid_eqb x y
  | None, None => true
  | _, _ => false
  end.

(* Name.Equal *)
Definition name_equal (a b : name) : bool :=
  if initialized a && initialized b then chan_eqb (chan a) (chan b)
  else String.eqb (ident a) (ident b) && Bool.eqb (initialized a) (initialized b).

(* Name.Substitute *)
Definition name_subst (old new n : name) : name :=
  if initialized n && chan_eqb (chan n) (chan old) then
    mkName (if String.eqb (ident new) "" then ident n else ident new) (is_self new) (pol n) (nty n) (chan new)
  else if negb (initialized n) && negb (initialized old) && String.eqb (ident n) (ident old) then
    mkName (ident new) (is_self new) (pol n) (nty n) (chan new)
  else n.

Fixpoint subst (old new : name) (f : form) : form :=
  let s := name_subst old new in
  match f with
  | FSend a b c => FSend (s a) (s b) (s c)
  | FRecv p c fr k =>
      FRecv p c (s fr) (if negb (name_equal p old) && negb (name_equal c old) then subst old new k else k)
  | FSel a l c => FSel (s a) l (s c)
  | FCase fr bs => FCase (s fr) (subst_brs old new bs)
  | FNew x b k => FNew x (subst old new b) (if negb (name_equal x old) then subst old new k else k)
  | FClose c => FClose (s c)
  | FWait c k => FWait (s c) (subst old new k)
  | FFwd a b d => FFwd (s a) (s b) d
  | FSplit x y fr k =>
      FSplit x y (s fr) (if negb (name_equal x old) && negb (name_equal y old) then subst old new k else k)
  | FCall fn args pt => FCall fn (map s args) pt
  | FCast a c => FCast (s a) (s c)
  | FShift x fr k => FShift x (s fr) (if negb (name_equal x old) then subst old new k else k)
  | FDrop c k => FDrop (s c) (subst old new k)
  | FPrint l k => FPrint l (subst old new k)
  end
with subst_brs (old new : name) (b : branches) : branches :=
  match b with
  | BrNil => BrNil
  | BrCons l p k r => BrCons l p (if negb (name_equal p old) then subst old new k else k) (subst_brs old new r)
  end.

(* free names (lists with the merge discipline of form.go) *)
Definition append_if_not_self (n : name) (fn : list name) : list name :=
  if is_self n then fn else fn ++ [n].
Definition remove_bound (l : list name) (b : name) : list name :=
  filter (fun n => negb (name_equal n b)) l.
Definition name_exists (l : list name) (c : name) : bool := existsb (fun n => name_equal n c) l.
Fixpoint merge_names (a b : list name) : list name :=
  match b with
  | [] => a
  | n :: r => merge_names (if name_exists a n then a else a ++ [n]) r
  end.

Fixpoint free_names (f : form) : list name :=
  match f with
  | FSend a b c => append_if_not_self c (append_if_not_self b (append_if_not_self a []))
  | FRecv p c fr k => merge_names (append_if_not_self fr []) (remove_bound (remove_bound (free_names k) p) c)
  | FSel a _ c => append_if_not_self c (append_if_not_self a [])
  | FCase fr bs => free_names_brs (append_if_not_self fr []) bs
  | FNew x b k => merge_names (merge_names [] (free_names b)) (remove_bound (free_names k) x)
  | FClose c => append_if_not_self c []
  | FWait c k => merge_names (append_if_not_self c []) (free_names k)
  | FFwd a b _ => append_if_not_self b (append_if_not_self a [])
  | FSplit x y fr k => merge_names (append_if_not_self fr []) (remove_bound (remove_bound (free_names k) x) y)
  | FCall _ args _ => fold_left (fun acc n => append_if_not_self n acc) args []
  | FCast a c => append_if_not_self c (append_if_not_self a [])
  | FShift x fr k => merge_names (append_if_not_self fr []) (remove_bound (free_names k) x)
  | FDrop c k => merge_names (append_if_not_self c []) (free_names k)
  | FPrint _ k => free_names k
  end
with free_names_brs (acc : list name) (b : branches) : list name :=
  match b with
  | BrNil => acc
  | BrCons _ p k r => free_names_brs (merge_names acc (remove_bound (free_names k) p)) r
  end.

(* Name.ContainedIn *)
Definition contained_in (n : name) (l : list name) : bool := existsb (fun j => name_equal n j) l.
