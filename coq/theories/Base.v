(* Base.v — shared vocabulary of the Grits model.  No proofs of properties here. *)
From Coq Require Export String Ascii List Bool Arith ZArith Lia.
Export ListNotations.
(* scope convention of the whole development: list_scope on top (so ++ is list append and
   `length` is List.length); string concatenation is written with `^^`. *)
Open Scope string_scope.
Open Scope list_scope.
Notation "a ^^ b" := (String.append a b) (at level 60, right associativity).

(* A Go computation either returns normally, panics (uncaught: the process dies with a
   trace), or never returns (infinite loop / unbounded recursion => stack overflow).
   These are VALUES of the model so that "never panics / never hangs" is a statement. *)
Inductive outcome (A : Type) : Type :=
| Ok (a : A)
| Panic (site : string)
| Hang (site : string).
Arguments Ok {A} a.
Arguments Panic {A} site.
Arguments Hang {A} site.

Definition obind {A B} (o : outcome A) (f : A -> outcome B) : outcome B :=
  match o with Ok a => f a | Panic s => Panic s | Hang s => Hang s end.
Notation "'do' x <- o ; k" := (obind o (fun x => k)) (at level 200, x pattern, o at level 100, k at level 200).

Definition is_ok {A} (o : outcome A) : bool := match o with Ok _ => true | _ => false end.

(* association lists as Go maps with string keys: lookup finds the most recent binding *)
Fixpoint alookup {V} (k : string) (m : list (string * V)) : option V :=
  match m with
  | [] => None
  | (k', v) :: r => if String.eqb k k' then Some v else alookup k r
  end.
Fixpoint aremove {V} (k : string) (m : list (string * V)) : list (string * V) :=
  match m with
  | [] => []
  | (k', v) :: r => if String.eqb k k' then aremove k r else (k', v) :: aremove k r
  end.
(* Go's m[k] = v : overwrite in place if present (keeps one binding per key) *)
Definition aset {V} (k : string) (v : V) (m : list (string * V)) : list (string * V) :=
  (k, v) :: aremove k m.
Definition amem {V} (k : string) (m : list (string * V)) : bool :=
  match alookup k m with Some _ => true | None => false end.

Fixpoint str_mem (k : string) (l : list string) : bool :=
  match l with [] => false | x :: r => String.eqb k x || str_mem k r end.

Definition ascii_lower (c : ascii) : ascii :=
  let n := nat_of_ascii c in
  if (Nat.leb 65 n && Nat.leb n 90)%bool then ascii_of_nat (n + 32) else c.
Fixpoint str_lower (s : string) : string :=
  match s with EmptyString => EmptyString | String c r => String (ascii_lower c) (str_lower r) end.

Fixpoint str_concat (l : list string) : string :=
  match l with [] => "" | x :: r => x ^^ str_concat r end.
