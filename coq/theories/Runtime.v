(* Runtime.v — the polarized interpreter (process/transition.go, runtime.go:181-274) as a labelled
   transition system over configurations: processes (providers, body) + channels (one-place buffer
   in asynchronous mode, rendezvous in synchronous mode, closed flag) + the `> label` output.
   One step = one goroutine running from one blocking point to the next.  The scheduler is an
   explicit argument (`choice`).  Fresh channel and process identifiers are drawn from a namespace
   private to the acting process (its path), so that steps of different processes commute
   syntactically.  Not modelled: heartbeats / quiescence detection by timer, logging, the monitor
   (it only receives copies), time.Sleep(Delay), ctx cancellation (the model's quiescence is exact:
   no enabled step).  Std++ style: finite maps are `gmap`s (canonical, Leibniz equality). *)
From stdpp Require Import gmap strings.
Require Import Grits.Base Grits.ModeDefs Grits.Modes Grits.STypes Grits.Forms Grits.Subst Grits.TcDeps Grits.Expand.

Definition pid := list nat.

Inductive rule : Type := RSND | RRCV | RCLS | RCST | RSHF | RSEL | RBRA | RFWD | RGC.
Definition rule_eqb (a b : rule) : bool :=
  match a, b with
  | RSND, RSND | RRCV, RRCV | RCLS, RCLS | RCST, RCST | RSHF, RSHF | RSEL, RSEL | RBRA, RBRA | RFWD, RFWD | RGC, RGC => true
  | _, _ => false
  end.

(* Message (runtime.go): Rule + Channel1 + Channel2 + Providers + Label *)
Record msg : Type := Msg { m_rule : rule; m_c1 : name; m_c2 : name; m_provs : list name; m_label : string }.
Definition zero_name : name := mkName "" false None None None.
Definition zero_msg : msg := Msg RSND zero_name zero_name [] "".   (* what a receive on a closed channel yields *)

Record proc : Type := Proc { pr_provs : list name; pr_body0 : form; pr_next : nat }.
Record chan_st : Type := Chan { ch_buf : option msg; ch_closed : bool }.
Record config : Type := Cfg {
  procs : gmap pid proc;
  chans : gmap cid chan_st;
  out : list (pid * string)       (* `> label` lines, most recent first, with the printing process *)
}.

(* Async = NORMAL_ASYNC, Sync = NORMAL_SYNC, NP = NON_POLARIZED_SYNC (the CLI's --sync): every name
   also carries a control channel (identified here with the same channel id), forwards hand their
   providers over through it, there are no polarities, no FWD/GC data messages, and drop does not
   reclaim anything *)
Inductive exec_mode : Type := Async | Sync | NP.
Definition is_np (md : exec_mode) : bool := match md with NP => true | _ => false end.

(* run-time errors: re.error / re.errorf (which panic), nil dereference, send on closed channel *)
Definition rt_err := string.

(* ---------------------------------------------------------------- fresh identifiers *)
Definition fresh_chan (self : pid) (p : proc) (id : string) (t : option sty) (po : option polarity) : name * proc :=
  (mkName id false po t (Some (self ++ [pr_next p])), Proc (pr_provs p) (pr_body0 p) (S (pr_next p))).

(* a spawned process: providers and body; it gets the pid  parent ++ [counter] *)
Record spawn : Type := Spawn { sp_provs : list name; sp_body : form }.

(* ---------------------------------------------------------------- what a process does next *)
Inductive action : Type :=
| ADup                                   (* more than one provider: duplicate first *)
| AInternal                              (* cut, call, drop, split, print *)
| ASend (c : cid) (m : msg)              (* send, then the goroutine ends *)
| ARecv (c : cid)                        (* blocking receive *)
| ANever                                 (* send / receive on a nil channel: blocks forever *)
| ACtrl (c : cid) (provs : list name)    (* NP: forward request offered on the control channel of c *)
| AErr (e : rt_err).

Definition prov0 (p : proc) : option name := head (pr_provs p).
Definition chan_of (n : name) : option cid := chan n.

(* ForwardForm.Polarity(true, env): the polarity of the unfolded type of from_c *)
Definition fwd_polarity (D : tenv) (from : name) : outcome polarity :=
  match nty from with
  | None => Panic "nil type in forward"
  | Some t =>
    match (match t with TName _ _ => unfold D t | _ => Ok (Some t) end) with
    | Ok (Some u) => polarity_of u
    | Ok None => Panic "nil type in forward"
    | Panic w => Panic w
    | Hang w => Hang w
    end
  end.

Definition multi (p : proc) : bool := (1 <? length (pr_provs p))%nat.

Definition send_on (p : proc) (target : option cid) (m : msg) : action :=
  if multi p then ADup
  else match target with
       | Some c => ASend c m
       | None => ANever       (* a send on a nil channel blocks forever (open programs only) *)
       end.
Definition recv_on (p : proc) (target : option cid) : action :=
  match target with
  | None => AErr "Channel not initialized"
  | Some c => if multi p then ADup else ARecv c
  end.
Definition internal (p : proc) : action := if multi p then ADup else AInternal.

Definition self_chan (p : proc) : option cid := match prov0 p with Some n => chan n | None => None end.
Definition self_name_of (p : proc) : name := match prov0 p with Some n => n | None => zero_name end.

Definition action_of (md : exec_mode) (D : tenv) (p : proc) : action :=
  match pr_body0 p with
  | FSend to pay cont =>
    if is_self to then send_on p (self_chan p) (Msg RSND pay cont [] "")
    else if negb (is_self cont) then AErr "in RCV rule, the continuation channel should be self"
    else send_on p (chan to) (Msg RRCV pay (self_name_of p) [] "")
  | FRecv _ _ from _ =>
    if is_self from then recv_on p (self_chan p) else recv_on p (chan from)
  | FSel to l cont =>
    if is_self to then send_on p (self_chan p) (Msg RSEL cont zero_name [] l)
    else if is_self cont then send_on p (chan to) (Msg RBRA (self_name_of p) zero_name [] l)
    else AErr "neither the sender or continuation is self"
  | FCase from _ =>
    if is_self from then recv_on p (self_chan p) else recv_on p (chan from)
  | FNew _ _ _ => internal p
  | FCall _ _ _ => internal p
  | FClose c =>
    if is_self c then send_on p (self_chan p) (Msg RCLS zero_name zero_name [] "")
    else AErr "Found a close on a client"
  | FWait c _ =>
    if is_self c then AErr "Found a wait on self" else recv_on p (chan c)
  | FDrop c _ =>
    if is_self c then AErr "Found a drop on self" else internal p
  | FFwd to from droppable =>
    if negb (is_self to) then AErr "should forward on self"
    else if is_np md then
      match chan from with Some c => ACtrl c (pr_provs p) | None => ANever end
    else match fwd_polarity D from with
         | Ok Neg =>
           (* active: FWD (or GC) request sent on the client's channel; no DUP check in the Go code *)
           match chan from with
           | Some c => ASend c (if droppable then Msg RGC zero_name zero_name [] ""
                                else Msg RFWD zero_name zero_name (pr_provs p) "")
           | None => ANever
           end
         | Ok Pos =>
           match chan from with
           | Some c => ARecv c
           | None => ANever
           end
         | Ok UnknownPol => AErr "forward has an unknown polarity"
         | Panic w => AErr w
         | Hang w => AErr w
         end
  | FSplit _ _ from _ =>
    if is_self from then AErr "should not split on self" else internal p
  | FCast to cont =>
    if is_self to then send_on p (self_chan p) (Msg RCST cont zero_name [] "")
    else if negb (is_self cont) then AErr "in SHF rule, the continuation channel should be self"
    else send_on p (chan to) (Msg RSHF (self_name_of p) zero_name [] "")
  | FShift _ from _ =>
    if is_self from then recv_on p (self_chan p) else recv_on p (chan from)
  | FPrint _ _ => internal p
  end.

(* ---------------------------------------------------------------- effects of a step of one process *)
Inductive after : Type :=
| Continue (p : proc)          (* the goroutine goes on with this state *)
| Finish.                      (* the goroutine ends *)

Record effect : Type := Eff {
  e_after : after;
  e_spawn : list spawn;
  e_newch : list cid;            (* channels created (empty) *)
  e_close : list cid;            (* channels closed *)
  e_out : list string
}.
Inductive eres : Type := EOk (e : effect) | EErr (e : rt_err).

Definition new_self (id : string) : name := mkName id true None None None.

(* NewDroppableForward process for a client (createDroppableForwardFromClient) *)
Definition droppable_fwd (self : pid) (p : proc) (client : name) : spawn * cid * proc :=
  let '(c, p') := fresh_chan self p (ident client) (nty client) (pol client) in
  (Spawn [c] (FFwd (mkName (ident client) true (pol client) (nty client) None) client true),
   match chan c with Some x => x | None => [] end, p').

Fixpoint droppable_fwds (self : pid) (p : proc) (clients : list name) : list spawn * list cid * proc :=
  match clients with
  | [] => ([], [], p)
  | cl :: r =>
    let '(s, c, p1) := droppable_fwd self p cl in
    let '(ss, cs, p2) := droppable_fwds self p1 r in
    (s :: ss, c :: cs, p2)
  end.

Fixpoint find_branch (l : string) (b : branches) : option (name * form) :=
  match b with
  | BrNil => None
  | BrCons l' pay k r => if String.eqb l' l then Some (pay, k) else find_branch l r
  end.

Definition set_body (p : proc) (b : form) : proc := Proc (pr_provs p) b (pr_next p).
Definition set_provs_body (p : proc) (ps : list name) (b : form) : proc := Proc ps b (pr_next p).
Definition cids_of (ns : list name) : list cid := flat_map (fun n => match chan n with Some c => [c] | None => [] end) ns.
Definition no_eff (a : after) : effect := Eff a [] [] [] [].

(* the process received message m on the channel it was waiting on *)
Definition on_message (self : pid) (p : proc) (m : msg) : eres :=
  let body := pr_body0 p in
  let is_fwd := match body with FFwd _ _ _ => true | _ => false end in
  if rule_eqb (m_rule m) RFWD && negb is_fwd then
    (* handleNegativeForwardRequest: close the old providers, continue as the forwarded ones *)
    EOk (Eff (Continue (set_provs_body p (m_provs m) body)) [] [] (cids_of (pr_provs p)) [])
  else if rule_eqb (m_rule m) RGC && negb is_fwd then
    (* handleNegativeDropRequest: propagate the drop to every client, then terminate *)
    let '(ss, cs, _) := droppable_fwds self p (free_names body) in
    EOk (Eff Finish ss cs [] [])
  else
  match body with
  | FRecv pay cont from k =>
    if is_self from then
      if rule_eqb (m_rule m) RRCV then
        let b := subst cont (new_self "") (subst pay (m_c1 m) k) in
        EOk (no_eff (Continue (set_provs_body p [m_c2 m] b)))
      else EErr "expected RCV"
    else
      if rule_eqb (m_rule m) RSND then
        EOk (no_eff (Continue (set_body p (subst cont (m_c2 m) (subst pay (m_c1 m) k)))))
      else EErr "expected SND"
  | FCase from bs =>
    if is_self from then
      if rule_eqb (m_rule m) RBRA then
        match find_branch (m_label m) bs with
        | Some (pay, k) => EOk (no_eff (Continue (set_provs_body p [m_c1 m] (subst pay (new_self "") k))))
        | None => EErr "no matching labels found"
        end
      else EErr "expected BRA"
    else
      if rule_eqb (m_rule m) RSEL then
        match find_branch (m_label m) bs with
        | Some (pay, k) => EOk (no_eff (Continue (set_body p (subst pay (m_c1 m) k))))
        | None => EErr "no matching labels found"
        end
      else EErr "expected SEL"
  | FWait c k =>
    if rule_eqb (m_rule m) RCLS then EOk (no_eff (Continue (set_body p k))) else EErr "expected CLS"
  | FShift x from k =>
    if is_self from then
      if rule_eqb (m_rule m) RSHF then
        EOk (no_eff (Continue (set_provs_body p [m_c1 m] (subst x (new_self "") k))))
      else EErr "expected SHF"
    else
      if rule_eqb (m_rule m) RCST then EOk (no_eff (Continue (set_body p (subst x (m_c1 m) k)))) else EErr "expected CST"
  | FFwd to from false =>
    (* positive forward: becomes the process that would have sent this message *)
    match m_rule m with
    | RSND => EOk (no_eff (Continue (set_body p (FSend to (m_c1 m) (m_c2 m)))))
    | RCLS => EOk (no_eff (Continue (set_body p (FClose to))))
    | RFWD => match m_provs m with
              | q :: _ => EOk (no_eff (Continue (set_provs_body p (m_provs m) (FFwd to q false))))
              | [] => EErr "index out of range (FWD without providers)"
              end
    | RSEL => EOk (no_eff (Continue (set_body p (FSel to (m_label m) (m_c1 m)))))
    | RCST => EOk (no_eff (Continue (set_body p (FCast to (m_c1 m)))))
    | RRCV => EErr "a positive forward should never receive RCV messages"
    | _ => EErr "forward should handle message"
    end
  | FFwd to from true =>
    (* droppable positive forward: the message is dropped, and so are the channels it carries *)
    let cl := (if initialized (m_c1 m) then [m_c1 m] else []) ++ (if initialized (m_c2 m) then [m_c2 m] else []) in
    let '(ss, cs, _) := droppable_fwds self p cl in
    EOk (Eff Finish ss cs [] [])
  | _ => EErr "receive in a form that does not receive"
  end.

(* CallForm.Transition: instantiate the function body *)
Definition call_body (F : list fundef) (fn : string) (args : list name) : option form :=
  match get_function F fn (length args) with
  | None => None
  | Some fd =>
    let body := fn_body fd in
    let np := length (fn_params fd) in
    let na := length args in
    let sub_all := fix go (ps : list name) (as_ : list name) (b : form) : form :=
                     match ps, as_ with
                     | p :: pr, a :: ar => go pr ar (subst p a b)
                     | _, _ => b
                     end in
    match fn_explicit fd with
    | Some ep =>
      if (na =? np)%nat then Some (sub_all (fn_params fd) args body)
      else if (na =? S np)%nat then
        match args with
        | a0 :: rest => Some (sub_all (fn_params fd) rest (subst ep (if is_self a0 then new_self "" else a0) body))
        | [] => None
        end
      else None
    | None =>
      if (na =? np)%nat then Some (sub_all (fn_params fd) args body)
      else if (na =? S np)%nat then Some (sub_all (fn_params fd) (tl args) body)
      else None
    end
  end.

(* fresh channels for DUP: for every free name, one per provider *)
Fixpoint fresh_row (self : pid) (p : proc) (fn : name) (n : nat) : list name * proc :=
  match n with
  | O => ([], p)
  | S k => let '(c, p1) := fresh_chan self p (ident fn) (nty fn) (pol fn) in
           let '(cs, p2) := fresh_row self p1 fn k in (c :: cs, p2)
  end.
Fixpoint fresh_matrix (self : pid) (p : proc) (fns : list name) (n : nat) : list (list name) * proc :=
  match fns with
  | [] => ([], p)
  | fn :: r => let '(row, p1) := fresh_row self p fn n in
               let '(rows, p2) := fresh_matrix self p1 r n in (row :: rows, p2)
  end.
Fixpoint subst_col (fns : list name) (rows : list (list name)) (i : nat) (b : form) : form :=
  match fns, rows with
  | fn :: fr, row :: rr => subst_col fr rr i (match nth_error row i with Some c => subst fn c b | None => b end)
  | _, _ => b
  end.

(* performDUPrule *)
Definition dup_effect (self : pid) (p : proc) : eres :=
  let provs := pr_provs p in
  let n := length provs in
  if (n =? 1)%nat then EErr "Cannot duplicate this process"
  else
    let fns := free_names (pr_body0 p) in
    let '(rows, _) := fresh_matrix self p fns n in
    let copies := imap (fun i pr => Spawn [pr] (subst_col fns rows i (pr_body0 p))) provs in
    let fwds := map (fun '(fn, row) => Spawn row (FFwd (mkName (ident fn) true None (nty fn) None) fn false))
                    (combine fns rows) in
    EOk (Eff Finish (copies ++ fwds) (flat_map cids_of rows) [] []).

(* the internal transitions *)
Definition internal_effect (md : exec_mode) (F : list fundef) (self : pid) (p : proc) : eres :=
  match pr_body0 p with
  | FNew x body k =>
    let '(c, p1) := fresh_chan self p (ident x) (nty x) (pol x) in
    EOk (Eff (Continue (set_body p1 (subst x c k))) [Spawn [c] body] (cids_of [c]) [] [])
  | FCall fn args _ =>
    match call_body F fn args with
    | Some b => EOk (no_eff (Continue (set_body p b)))
    | None => EErr "Function does not exist or could not be initialized"
    end
  | FDrop c k =>
    if is_np md then EOk (no_eff (Continue (set_body p k))) else
    let '(s, ch, p1) := droppable_fwd self p c in
    EOk (Eff (Continue (set_body p1 k)) [s] [ch] [] [])
  | FSplit x y from k =>
    let '(c1, p1) := fresh_chan self p (ident x) (nty from) (pol from) in
    let '(c2, p2) := fresh_chan self p1 (ident y) (nty from) (pol from) in
    EOk (Eff (Continue (set_body p2 (subst y c2 (subst x c1 k))))
             [Spawn [c1; c2] (FFwd (mkName (ident from) true (pol from) (nty from) None) from false)]
             (cids_of [c1; c2]) [] [])
  | FPrint l k => EOk (Eff (Continue (set_body p k)) [] [] [] [l])
  | _ => EErr "not an internal form"
  end.

(* ---------------------------------------------------------------- applying an effect *)
Fixpoint add_spawns (self : pid) (next : nat) (ss : list spawn) (m : gmap pid proc) : gmap pid proc * nat :=
  match ss with
  | [] => (m, next)
  | s :: r => add_spawns self (S next) r (<[ self ++ [next] := Proc (sp_provs s) (sp_body s) 0 ]> m)
  end.

Definition empty_chan : chan_st := Chan None false.

Definition apply_effect (c : config) (self : pid) (p : proc) (e : effect) : config :=
  (* spawned processes take identifiers from the acting process's counter, after the channels *)
  let base := match e_after e with Continue p' => pr_next p' | Finish => pr_next p end in
  let next0 := (base + length (e_newch e))%nat in
  let '(pm, next1) := add_spawns self next0 (e_spawn e) (procs c) in
  let pm' := match e_after e with
             | Continue p' => <[ self := Proc (pr_provs p') (pr_body0 p') next1 ]> pm
             | Finish => delete self pm
             end in
  let cm := foldr (fun ch m => <[ ch := empty_chan ]> m) (chans c) (e_newch e) in
  let cm' := foldr (fun ch m => match m !! ch with
                                | Some st => <[ ch := Chan (ch_buf st) true ]> m
                                | None => m
                                end) cm (e_close e) in
  Cfg pm' cm' (map (fun l => (self, l)) (rev (e_out e)) ++ out c).

(* ---------------------------------------------------------------- the step function *)
Inductive choice : Type :=
| Run (p : pid)                  (* one goroutine runs to its next blocking point *)
| Rendezvous (s r : pid)         (* synchronous modes: a sender and a receiver meet on a channel *)
| Control (f t : pid).           (* NP: forward f hands its providers to the provider t of its client channel *)

(* NP: does the process look at its control channel at its next transition?  Every transition
   helper does (select on Providers[0].ControlChannel), except a call (and a process that must
   duplicate first). *)
Definition polls_control (md : exec_mode) (D : tenv) (p : proc) : bool :=
  match action_of md D p with
  | ASend _ _ | ARecv _ | ACtrl _ _ => true
  | AInternal => match pr_body0 p with FCall _ _ _ => false | _ => true end
  | _ => false
  end.

Inductive sres : Type :=
| SNotEnabled
| SStep (c : config)
| SError (who : pid) (e : rt_err).

Definition eff_step (c : config) (self : pid) (p : proc) (r : eres) : sres :=
  match r with
  | EOk e => SStep (apply_effect c self p e)
  | EErr w => SError self w
  end.

Definition put_msg (c : config) (ch : cid) (st : chan_st) (m : option msg) : config :=
  Cfg (procs c) (<[ ch := Chan m (ch_closed st) ]> (chans c)) (out c).
Definition del_proc (c : config) (p : pid) : config := Cfg (delete p (procs c)) (chans c) (out c).

Definition step (md : exec_mode) (D : tenv) (F : list fundef) (c : config) (ch : choice) : sres :=
  match ch with
  | Run self =>
    match procs c !! self with
    | None => SNotEnabled
    | Some p =>
      match action_of md D p with
      | ADup => eff_step c self p (dup_effect self p)
      | AInternal => eff_step c self p (internal_effect md F self p)
      | ACtrl _ _ => SNotEnabled
      | AErr w => SError self w
      | ANever => SNotEnabled
      | ASend k m =>
        match chans c !! k with
        | None => SError self "send on a channel that does not exist"
        | Some st =>
          if ch_closed st then SError self "send on closed channel"
          else match md, ch_buf st with
               | Async, None => SStep (del_proc (put_msg c k st (Some m)) self)
               | _, _ => SNotEnabled
               end
        end
      | ARecv k =>
        match chans c !! k with
        | None => SError self "receive on a channel that does not exist"
        | Some st =>
          match ch_buf st with
          | Some m => eff_step (put_msg c k st None) self p (on_message self p m)
          | None => if ch_closed st then eff_step c self p (on_message self p zero_msg) else SNotEnabled
          end
        end
      end
    end
  | Rendezvous s r =>
    match md with
    | Async => SNotEnabled
    | _ =>
      if bool_decide (s = r) then SNotEnabled else
      match procs c !! s, procs c !! r with
      | Some ps, Some pr =>
        match action_of md D ps, action_of md D pr with
        | ASend k m, ARecv k' =>
          if bool_decide (k = k') then
            match chans c !! k with
            | Some st => if ch_closed st then SNotEnabled
                         else eff_step (del_proc c s) r pr (on_message r pr m)
            | None => SNotEnabled
            end
          else SNotEnabled
        | _, _ => SNotEnabled
        end
      | _, _ => SNotEnabled
      end
    end
  | Control f t =>
    if negb (is_np md) || bool_decide (f = t) then SNotEnabled else
    match procs c !! f, procs c !! t with
    | Some pf, Some pt =>
      match action_of md D pf, self_chan pt with
      | ACtrl k provs, Some k' =>
        if bool_decide (k = k') && polls_control md D pt then
          (* fwdhandleControlMessageNP: close the first provider (the one the request was sent to) and
             put the forwarder's providers in its place *)
          SStep (apply_effect (del_proc c f) t pt
                   (Eff (Continue (set_provs_body pt (provs ++ tl (pr_provs pt)) (pr_body0 pt))) [] []
                        (cids_of (firstn 1 (pr_provs pt))) []))
        else SNotEnabled
      | _, _ => SNotEnabled
      end
    | _, _ => SNotEnabled
    end
  end.

(* ---------------------------------------------------------------- schedules and runs *)
Definition pids (c : config) : list pid := map fst (map_to_list (procs c)).

Definition candidates (md : exec_mode) (c : config) : list choice :=
  let ps := pids c in
  map Run ps ++ match md with
                | Async => []
                | Sync => flat_map (fun s => map (fun r => Rendezvous s r) ps) ps
                | NP => flat_map (fun s => map (fun r => Rendezvous s r) ps) ps ++
                        flat_map (fun s => map (fun r => Control s r) ps) ps
                end.
Definition enabled (md : exec_mode) (D : tenv) (F : list fundef) (c : config) : list choice :=
  filter (fun ch => match step md D F c ch with SNotEnabled => false | _ => true end) (candidates md c).

Definition quiescent (md : exec_mode) (D : tenv) (F : list fundef) (c : config) : Prop :=
  forall ch, step md D F c ch = SNotEnabled.

Inductive run_res : Type :=
| RQuiescent (c : config)
| RError (c : config) (who : pid) (e : rt_err)
| ROutOfFuel (c : config).

(* the oracle picks among the enabled choices (sorted canonically by the caller of `enabled`) *)
Fixpoint exec_run (fuel : nat) (pick : nat -> nat -> nat) (md : exec_mode) (D : tenv) (F : list fundef) (c : config) : run_res :=
  match fuel with
  | O => ROutOfFuel c
  | S f =>
    match enabled md D F c with
    | [] => RQuiescent c
    | e0 :: es =>
      let n := S (length es) in
      let ch := nth (pick fuel n mod n) (e0 :: es) e0 in
      match step md D F c ch with
      | SStep c' => exec_run f pick md D F c'
      | SError who w => RError c who w
      | SNotEnabled => RQuiescent c     (* impossible: ch was enabled *)
      end
    end
  end.

(* ---------------------------------------------------------------- initial configuration *)
(* CreateChannelForEachProcess + SubstituteNameInitialization: process i is [i]; its j-th provider
   channel is [i; j] *)
Definition init_provs (i : nat) (provs : list name) : list (name * name) :=
  imap (fun j old => (old, mkName (ident old) false None None (Some [i; j]))) provs.

Definition init_config (p : program) : config :=
  let inits := imap (fun i pr => init_provs i (pr_providers pr)) (p_procs p) in
  let all := concat inits in
  let body_of pr := fold_left (fun b '(old, new) => subst old new b) all (pr_body pr) in
  let pm := fold_left (fun m '(i, (pr, ini)) =>
                         <[ [i] := Proc (map snd ini) (body_of pr) (length ini) ]> m)
                      (imap (fun i x => (i, x)) (combine (p_procs p) inits)) (∅ : gmap pid proc) in
  let cm := fold_left (fun m '(_, new) => match chan new with Some k => <[ k := empty_chan ]> m | None => m end)
                      all (∅ : gmap cid chan_st) in
  Cfg pm cm [].

(* ---------------------------------------------------------------- observables *)
Definition labels (c : config) : list string := rev (map snd (out c)).

Inductive blocked : Type := BSend | BRecv | BOther.
Definition live (md : exec_mode) (D : tenv) (c : config) : list blocked :=
  map (fun '(_, p) => match action_of md D p with ASend _ _ => BSend | ARecv _ => BRecv | _ => BOther end)
      (map_to_list (procs c)).

(* ---------------------------------------------------------------- event traces (for the causal order, C04) *)
Record event : Type := Ev {
  ev_pids : list pid;            (* the goroutine(s) taking the step *)
  ev_send : option cid;          (* channel a message is put on *)
  ev_recv : option cid;          (* channel a message is taken from *)
  ev_labels : list string;       (* labels printed by the step *)
  ev_spawned : list pid          (* processes created by the step *)
}.

Definition event_of (md : exec_mode) (D : tenv) (c c' : config) (ch : choice) : event :=
  let spawned := filter (fun q => match procs c !! q with None => true | Some _ => false end) (pids c') in
  let labs := rev (map snd (firstn (length (out c') - length (out c)) (out c'))) in
  match ch with
  | Run p =>
    match procs c !! p with
    | Some pr =>
      match action_of md D pr with
      | ASend k _ => Ev [p] (Some k) None labs spawned
      | ARecv k => Ev [p] None (Some k) labs spawned
      | _ => Ev [p] None None labs spawned
      end
    | None => Ev [p] None None labs spawned
    end
  | Rendezvous s r => Ev [s; r] None None labs spawned
  | Control f t => Ev [f; t] None None labs spawned
  end.

Fixpoint exec_trace (fuel : nat) (pick : nat -> nat -> nat) (md : exec_mode) (D : tenv) (F : list fundef)
         (c : config) (acc : list event) : run_res * list event :=
  match fuel with
  | O => (ROutOfFuel c, rev acc)
  | S f =>
    match enabled md D F c with
    | [] => (RQuiescent c, rev acc)
    | e0 :: es =>
      let n := S (length es) in
      let ch := nth (pick fuel n mod n) (e0 :: es) e0 in
      match step md D F c ch with
      | SStep c' => exec_trace f pick md D F c' (event_of md D c c' ch :: acc)
      | SError who w => (RError c who w, rev acc)
      | SNotEnabled => (RQuiescent c, rev acc)
      end
    end
  end.
