(* Diagnostics only: which package-level variables / uses break the immutability discipline. *)
Require Import Grits.Base Grits.GlobalsDefs Grits.gen.Globals Grits.GlobalsDiscipline.
Definition kind_name (k : ukind) : string :=
  match k with URead => "URead" | UIndexRead => "UIndexRead" | UWrite => "UWrite" | UEscape => "UEscape" end.
Eval vm_compute in ("OFFENDING", map (fun u => (u_vpkg u, u_var u, u_fpkg u, u_fn u, kind_name (u_kind u))) offending_uses).
Eval vm_compute in ("BADVARS", map (fun g => (g_pkg g, g_name g, g_type g)) offending_vars).
Eval vm_compute in ("FOREIGN", map (fun u => (u_vpkg u, u_var u, u_fpkg u, u_fn u, kind_name (u_kind u))) foreign_uses).
Eval vm_compute in ("UNDECLARED", map (fun u => (u_vpkg u, u_var u)) (filter (fun u => negb (declared u)) global_uses)).
