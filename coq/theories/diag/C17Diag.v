(* Diagnostics only (not part of the proof): which law fails on the dumped tables, and where. *)
Require Import Grits.Base Grits.ModeDefs Grits.gen.ModeTables Grits.C17Defs.
Definition report : list (string * bool) :=
  [("law_total", law_total); ("down_refl", law_refl); ("down_trans", law_trans); ("down_antisym", law_antisym);
   ("rep_top", law_top); ("lin_bottom", law_bottom); ("aff_mul_incomparable", law_incomparable);
   ("up_is_converse", law_converse); ("weak_monotone", law_weak_mono); ("contr_monotone", law_contr_mono);
   ("equals_is_identity", law_equals); ("structural_rules", law_structural);
   ("spellings", law_spellings); ("nonspellings_invalid", law_nonspellings)].
Definition failing : list string := map fst (filter (fun p => negb (snd p)) report).
Eval vm_compute in ("FAILING-LAWS", failing).
Eval vm_compute in ("refl", filter (fun m => negb (down_c m m)) four_modes).
Eval vm_compute in ("trans", fails3 (fun m k j => bimp (down_c m k && down_c k j) (down_c m j))).
Eval vm_compute in ("antisym", fails2 (fun m k => bimp (down_c m k && down_c k m) (mode_same m k))).
Eval vm_compute in ("top", filter (fun m => negb (down_c Rep m)) four_modes).
Eval vm_compute in ("bottom", filter (fun m => negb (down_c m Lin)) four_modes).
Eval vm_compute in ("converse", fails2 (fun m k => Bool.eqb (up_c m k) (down_c k m))).
Eval vm_compute in ("weak_mono", fails2 (fun m k => bimp (down_c m k && weak_c k) (weak_c m))).
Eval vm_compute in ("contr_mono", fails2 (fun m k => bimp (down_c m k && contr_c k) (contr_c m))).
Eval vm_compute in ("equals", fails2 (fun m k => Bool.eqb (equals_c m k) (mode_same m k))).
Eval vm_compute in ("spellings", filter (fun '(_, want, got) => negb (mode_same want got)) spelling_tbl).
Eval vm_compute in ("nonspellings", filter (fun '(_, got) => match got with Invalid _ => false | _ => true end) nonspelling_tbl).
