(* Diagnostics only: which accesses break the discipline. *)
Require Import Grits.Base Grits.SharedDefs Grits.gen.SharedAccess Grits.SharedDiscipline.
Eval vm_compute in ("OFFENDING", map (fun a => (a_struct a, a_field a, a_fn a)) offending).
Eval vm_compute in ("UNCLASSIFIED",
  filter (fun f => match discipline_of "RuntimeEnvironment" f with Some _ => false | None => true end) fields_RuntimeEnvironment ++
  filter (fun f => match discipline_of "Monitor" f with Some _ => false | None => true end) fields_Monitor).
