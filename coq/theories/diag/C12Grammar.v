(* Diagnostics only (not part of the proof): the grammar recovered from the LR tables, as text, for
   the evidence file — one line per production:  lhs ::= symbols.  lhs from gritsR1, the symbols
   from the accessing symbols of the states along backward paths (checked to agree on all paths by
   proofs/LRSoundInst.v); token names from gritsToknames; nonterminal names (display only) from the
   rule heads of parser.y. *)
Require Import Grits.Base Grits.Tokens Grits.gen.LRTables Grits.gen.LRCert Grits.LR Grits.Expand
               Grits.proofs.LRCheck Grits.proofs.LRSound.
Local Open Scope Z_scope.

Fixpoint zassoc (k : Z) (l : list (Z * string)) : option string :=
  match l with [] => None | (a, v) :: r => if a =? k then Some v else zassoc k r end.
Definition sym_name (x : Z) : string :=
  if 0 <? x then nth (Z.to_nat (x - 1)) tToknames "?"
  else match zassoc (- x) tNtNames with Some n => n | None => "n" ^^ nat_to_string (Z.to_nat (- x)) end.
Fixpoint join (l : list string) : string :=
  match l with [] => "" | [x] => x | x :: r => x ^^ " " ^^ join r end.
Definition prod_text (p : nat) : string :=
  nat_to_string p ^^ ". " ^^ sym_name (lhs (Z.of_nat p)) ^^ " ::= " ^^
  match rhs tRhs (Z.of_nat p) with [] => "/* empty */" | l => join (map sym_name l) end.
Eval vm_compute in ("START", sym_name START).
Eval vm_compute in ("GRAMMAR", map prod_text (seq 1 (length tR1 - 1))).
