(* C17Defs.v — the code's own mode functions, read off the graphs dumped from the code. *)
Require Import Grits.Base Grits.ModeDefs Grits.gen.ModeTables.

Definition tbl2 (t : list (mode * mode * bool)) (a b : mode) : option bool :=
  match find (fun '(x, y, _) => mode_same x a && mode_same y b) t with
  | Some (_, _, r) => Some r | None => None end.
Definition tbl1 {R} (t : list (mode * R)) (a : mode) : option R :=
  match find (fun '(x, _) => mode_same x a) t with Some (_, r) => Some r | None => None end.

(* the relation "the code answers true" ; a missing entry (incomplete dump) is not true *)
Definition down_c (a b : mode) : bool := match tbl2 down_tbl a b with Some r => r | None => false end.
Definition up_c (a b : mode) : bool := match tbl2 up_tbl a b with Some r => r | None => false end.
Definition equals_c (a b : mode) : bool := match tbl2 equals_tbl a b with Some r => r | None => false end.
Definition weak_c (a : mode) : bool := match tbl1 weak_tbl a with Some r => r | None => false end.
Definition contr_c (a : mode) : bool := match tbl1 contr_tbl a with Some r => r | None => false end.
Definition total2 (t : list (mode * mode * bool)) : bool :=
  forallb (fun a => forallb (fun b => match tbl2 t a b with Some _ => true | None => false end) four_modes) four_modes.
Definition total1 {R} (t : list (mode * R)) : bool :=
  forallb (fun a => match tbl1 t a with Some _ => true | None => false end) four_modes.

(* boolean forms of the laws, used both by the proofs and by the failing-tuple search *)
Definition all1 (p : mode -> bool) := forallb p four_modes.
Definition all2 (p : mode -> mode -> bool) := forallb (fun a => forallb (p a) four_modes) four_modes.
Definition all3 (p : mode -> mode -> mode -> bool) :=
  forallb (fun a => forallb (fun b => forallb (p a b) four_modes) four_modes) four_modes.
Definition bimp (a b : bool) := implb a b.

Definition law_refl := all1 (fun m => down_c m m).
Definition law_trans := all3 (fun m k j => bimp (down_c m k && down_c k j) (down_c m j)).
Definition law_antisym := all2 (fun m k => bimp (down_c m k && down_c k m) (mode_same m k)).
Definition law_top := all1 (fun m => down_c Rep m).
Definition law_bottom := all1 (fun m => down_c m Lin).
Definition law_incomparable := negb (down_c Aff Mul) && negb (down_c Mul Aff).
Definition law_converse := all2 (fun m k => Bool.eqb (up_c m k) (down_c k m)).
Definition law_weak_mono := all2 (fun m k => bimp (down_c m k && weak_c k) (weak_c m)).
Definition law_contr_mono := all2 (fun m k => bimp (down_c m k && contr_c k) (contr_c m)).
Definition law_equals := all2 (fun m k => Bool.eqb (equals_c m k) (mode_same m k)).
Definition law_structural :=
  weak_c Rep && contr_c Rep && weak_c Aff && negb (contr_c Aff) &&
  negb (weak_c Mul) && contr_c Mul && negb (weak_c Lin) && negb (contr_c Lin).
Definition law_spellings := forallb (fun '(_, want, got) => mode_same want got) spelling_tbl.
Definition law_nonspellings := forallb (fun '(_, got) => match got with Invalid _ => true | _ => false end) nonspelling_tbl.
Definition law_total :=
  total2 down_tbl && total2 up_tbl && total2 equals_tbl && total1 weak_tbl && total1 contr_tbl &&
  match mode_method_panics with [] => true | _ => false end.

(* failing tuples (empty when the law holds) *)
Definition fails2 (p : mode -> mode -> bool) : list (mode * mode) :=
  filter (fun '(a, b) => negb (p a b)) (list_prod four_modes four_modes).
Definition fails3 (p : mode -> mode -> mode -> bool) : list (mode * mode * mode) :=
  filter (fun '(a, b, c) => negb (p a b c)) (list_prod (list_prod four_modes four_modes) four_modes).
