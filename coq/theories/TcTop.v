(* TcTop.v — process.Typecheck: the preliminary checks and the drivers over function and process
   declarations (process/typechecker.go:10-330, 1690-1740), as repaired (the worker returns at the
   first error; an internal panic becomes an error; several providers need a contractable type). *)
Require Import Grits.Base Grits.ModeDefs Grits.Modes Grits.STypes Grits.Forms Grits.Subst Grits.Infer
               Grits.TcDeps Grits.Expand Grits.Tc.

Definition all_names_unique (l : list name) : bool := negb (has_dup (map ident l)).

(* AddMissingModalities on an optional type *)
Definition add_missing_opt (D : tenv) (t : option sty) : tcr (option sty) :=
  match t with None => TOk None | Some t => tdo t' <- lift (add_missing D t); TOk (Some t') end.

Fixpoint add_missing_names (D : tenv) (ns : list name) : tcr (list name) :=
  match ns with
  | [] => TOk []
  | n :: r => tdo t <- add_missing_opt D (nty n); tdo r' <- add_missing_names D r; TOk (set_nty n t :: r')
  end.

Definition types_of (ns : list name) : list sty :=
  flat_map (fun n => match nty n with Some t => [t] | None => [] end) ns.

(* preliminaryFunctionDefinitionsChecks: returns the functions with modes filled in *)
Fixpoint prelim_funs (D : tenv) (fs : list fundef) (seen : list string) : tcr (list fundef) :=
  match fs with
  | [] => TOk []
  | f :: r =>
    tdo _ <- guard (negb (str_mem (fn_name f) seen)) "duplicate function name";
    tdo _ <- guard (match fn_type f with Some _ => true | None => false end) "missing type of provider";
    tdo _ <- guard (forallb (fun p => match nty p with Some _ => true | None => false end) (fn_params f)) "parameter has a missing type";
    tdo _ <- guard (all_names_unique (fn_params f)) "parameters defined more than once";
    tdo ft <- add_missing_opt D (fn_type f);
    tdo ps <- add_missing_names D (fn_params f);
    tdo _ <- guard (sanity_types D (match ft with Some t => [t] | None => [] end ++ types_of ps)) "type error in function definition";
    tdo _ <- indep_all (map nty ps) ft;
    tdo r' <- prelim_funs D r (fn_name f :: seen);
    TOk ({| fn_name := fn_name f; fn_params := ps; fn_body := fn_body f; fn_type := ft; fn_explicit := fn_explicit f |} :: r')
  end.

(* NamesInFirstListOnly *)
Definition names_first_only (a b : list name) : list name :=
  filter (fun n => negb (str_mem (ident n) (map ident b))) a.

(* the bookkeeping of which assumed / process names may still be used: name -> can-be-used *)
Definition usemap := list (string * bool).

Fixpoint use_free_names (fns : list name) (assumed procsn : usemap) : tcr (usemap * usemap) :=
  match fns with
  | [] => TOk (assumed, procsn)
  | fn :: r =>
    match alookup (ident fn) assumed, alookup (ident fn) procsn with
    | None, None => TErr "name is not defined"
    | Some true, _ => use_free_names r (aset (ident fn) false assumed) procsn
    | Some false, _ => TErr "assumed name is already used elsewhere"
    | None, Some true => use_free_names r assumed (aset (ident fn) false procsn)
    | None, Some false => TErr "process name is already used elsewhere"
    end
  end.

Fixpoint prelim_procs_types (D : tenv) (ps : list procdef) (assumed procsn : usemap) : tcr (list procdef * usemap) :=
  match ps with
  | [] => TOk ([], assumed)
  | p :: r =>
    tdo _ <- guard (match pr_type p with Some _ => true | None => false end) "missing type of provider";
    tdo pt <- add_missing_opt D (pr_type p);
    tdo _ <- guard (sanity_types D (match pt with Some t => [t] | None => [] end)) "type error in process";
    tdo _ <- guard (negb ((1 <? length (pr_providers p))%nat && negb (match pt with Some t => contr (mode_of t) | None => false end)))
                   "several providers need a contractable type";
    let fns := names_first_only (free_names (pr_body p)) (pr_providers p) in
    tdo (assumed', procsn') <- use_free_names fns assumed procsn;
    tdo (r', assumed'') <- prelim_procs_types D r assumed' procsn';
    TOk ({| pr_body := pr_body p; pr_providers := pr_providers p; pr_type := pt |} :: r', assumed'')
  end.

(* uniqueness of provider names within and across processes *)
Fixpoint providers_unique (ps : list procdef) (seen : list string) : bool :=
  match ps with
  | [] => true
  | p :: r =>
    all_names_unique (pr_providers p) &&
    negb (existsb (fun n => str_mem (ident n) seen) (pr_providers p)) &&
    providers_unique r (map ident (pr_providers p) ++ seen)
  end.

(* the 'uses' relation among top-level processes must be acyclic (the initial configuration is a
   forest).  The Go code runs a depth-first search; the model computes the same verdict by Kahn's
   iteration: repeatedly mark the processes all of whose used processes are marked. *)
Definition provider_index (ps : list procdef) (x : string) : option nat :=
  (fix go (l : list procdef) (i : nat) (acc : option nat) : option nat :=
     match l with
     | [] => acc
     | q :: r => go r (S i) (if str_mem x (map ident (pr_providers q)) then Some i else acc)
     end) ps 0 None.
Definition proc_uses (ps : list procdef) (p : procdef) : list nat :=
  flat_map (fun fn => match provider_index ps (ident fn) with Some j => [j] | None => [] end)
           (names_first_only (free_names (pr_body p)) (pr_providers p)).
Definition nat_mem (i : nat) (l : list nat) : bool := existsb (Nat.eqb i) l.
Fixpoint kahn (fuel : nat) (uses : list (list nat)) (done : list nat) : list nat :=
  match fuel with
  | O => done
  | S f =>
    kahn f uses (done ++ filter (fun i => negb (nat_mem i done) && forallb (fun j => nat_mem j done) (nth i uses []))
                               (seq 0 (length uses)))
  end.
Definition procs_acyclic (ps : list procdef) : bool :=
  let uses := map (proc_uses ps) ps in
  (length (kahn (length ps) uses []) =? length ps)%nat.

(* F31: the keyword self cannot name a process (the processes made for exec carry a generated identifier) *)
Definition providers_not_self (ps : list procdef) : bool :=
  forallb (fun p => forallb (fun n => negb (is_self n && (ident n =? "")%string)) (pr_providers p)) ps.

Definition prelim_procs (D : tenv) (ps : list procdef) (assumed : list name) : tcr (list procdef * list name) :=
  tdo _ <- guard (all_names_unique assumed) "assumed names defined more than once";
  tdo _ <- guard (forallb (fun n => match nty n with Some _ => true | None => false end) assumed) "assumed name has no declared type";
  tdo assumed' <- add_missing_names D assumed;
  tdo _ <- guard (sanity_types D (types_of assumed')) "type error when assuming name";
  tdo _ <- guard (providers_unique ps []) "provider names are not unique";
  let allp := flat_map (fun p => map ident (pr_providers p)) ps in
  tdo _ <- guard (negb (existsb (fun x => str_mem x (map ident assumed)) allp)) "assumed name is later defined as a process";
  tdo (ps', remaining) <- prelim_procs_types D ps (map (fun n => (ident n, true)) assumed') (map (fun x => (x, true)) allp);
  tdo _ <- guard (negb (existsb snd remaining)) "assumed name has never been used";
  tdo _ <- guard (procs_acyclic ps) "processes depend on each other cyclically";
  tdo _ <- guard (providers_not_self ps) "self used as the name of a process";
  TOk (ps', assumed').

(* produceFunctionDefinitionsEnvironment *)
Fixpoint make_sigma (D : tenv) (fs : list fundef) : tcr sigma :=
  match fs with
  | [] => TOk []
  | f :: r =>
    tdo t <- unfold_opt D (fn_type f);
    tdo r' <- make_sigma D r;
    TOk ({| fs_name := fn_name f; fs_params := fn_params f; fs_type := t |} :: r')
  end.

(* produceNameTypesCtx *)
Definition make_ctx (ns : list name) : ctx := fold_left (fun g n => aset (ident n) (nty n) g) ns [].

Fixpoint tc_funs (D : tenv) (Sg : sigma) (fs : list fundef) : tcr (list fundef) :=
  match fs with
  | [] => TOk []
  | f :: r =>
    tdo b <- tc_form D Sg (make_ctx (fn_params f)) None (fn_type f) (fn_body f);
    tdo r' <- tc_funs D Sg r;
    TOk ({| fn_name := fn_name f; fn_params := fn_params f; fn_body := b; fn_type := fn_type f; fn_explicit := fn_explicit f |} :: r')
  end.

(* getFreeNameTypes: providers of all processes with their process types, overridden by the
   assumed names *)
Definition available_names (ps : list procdef) (assumed : list name) : list (string * name) :=
  let provs := flat_map (fun p => map (fun n => (ident n, set_nty n (pr_type p))) (pr_providers p)) ps in
  fold_left (fun m a => aset (ident a) a m) assumed (fold_left (fun m kv => aset (fst kv) (snd kv) m) provs []).

Definition free_name_types (p : procdef) (ps : list procdef) (assumed : list name) : list name :=
  let avail := available_names ps assumed in
  flat_map (fun fn => match alookup (ident fn) avail with Some n => [n] | None => [] end)
           (names_first_only (free_names (pr_body p)) (pr_providers p)).

Fixpoint tc_procs (D : tenv) (Sg : sigma) (all : list procdef) (assumed : list name) (ps : list procdef) : tcr (list procdef) :=
  match ps with
  | [] => TOk []
  | p :: r =>
    tdo b <- tc_form D Sg (make_ctx (free_name_types p all assumed)) None (pr_type p) (pr_body p);
    tdo r' <- tc_procs D Sg all assumed r;
    TOk ({| pr_body := b; pr_providers := pr_providers p; pr_type := pr_type p |} :: r')
  end.

(* typecheckFunctionsAndProcesses *)
Definition tc_program (p : program) : tcr program :=
  let D := p_types p in
  tdo okd <- lift (sanity_typedefs D);
  tdo _ <- guard okd "type definitions are not well formed";
  tdo fs <- prelim_funs D (p_funs p) [];
  tdo (ps, assumed) <- prelim_procs D (p_procs p) (p_assumed p);
  tdo Sg <- make_sigma D fs;
  tdo fs' <- tc_funs D Sg fs;
  tdo ps' <- tc_procs D Sg ps assumed ps;
  TOk {| p_procs := ps'; p_assumed := assumed; p_funs := fs'; p_types := D |}.

(* process.Typecheck as seen by its caller (the worker's recover turns a panic into an error) *)
Inductive verdict : Type := Accept (p : program) | Reject | RejectInternal (why : string) | Diverge (why : string).
Definition typecheck (p : program) : verdict :=
  match tc_program p with
  | TOk p' => Accept p'
  | TErr _ => Reject
  | TPanic w => RejectInternal w
  | THang w => Diverge w
  end.
