(* drv_lin.ml — executable oracles of C05 (linoracle) and C06 (indoracle) applied to the parsed program *)
open Registry
open Model_lin

let flags p =
  (if uninit_prog p then " uninit=1" else " uninit=0") ^
  (if env_moded_b p.p_types then " moded=1" else " moded=0")

let with_prog (txt : string) (k : program -> string) : string =
  match parse_string (explode txt) with
  | PErr _ -> "PARSE-ERR"
  | PPanic _ -> "PARSE-PANIC"
  | PHang _ -> "PARSE-HANG"
  | POk p -> k p

let do_lin txt = with_prog txt (fun p ->
  let a = linear_program_b p and b = drop_split_program_b p in
  (if a && b then "OK" else if a then "VIOLATES drop-split-mode" else "VIOLATES linear") ^ flags p)

let do_ind txt = with_prog txt (fun p ->
  (match indep_program_v p with
   | IndepOk -> "OK"
   | IndepK1 n -> "K1"
   | IndepViolates w -> "VIOLATES " ^ implode w) ^ flags p)

let () = register "linoracle" do_lin
let () = register "indoracle" do_ind
