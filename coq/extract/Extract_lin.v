(* Extraction of the executable oracles of C05 / C06 (ExtrOcamlBasic + ExtrOcamlString only). *)
Require Import Coq.extraction.Extraction Coq.extraction.ExtrOcamlBasic Coq.extraction.ExtrOcamlString.
Require Import Grits.Base Grits.Expand Grits.Tc Grits.TcTop Grits.spec.Linear Grits.spec.Indep Grits.spec.Oracle.
Extraction Language OCaml.
Extraction "model_lin.ml" parse_string uninit_prog env_moded_b linear_program_b drop_split_program_b indep_program_v.
