(* Extraction of the CLI model. *)
Require Import Coq.extraction.Extraction Coq.extraction.ExtrOcamlBasic Coq.extraction.ExtrOcamlString.
Require Import Grits.Base Grits.Cli.
Extraction Language OCaml.
Extraction "model_cli.ml" cli.
