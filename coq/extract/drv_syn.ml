(* drv_syn.ml — subcommand synok: does every type of the parsed program satisfy EqualWF.syn_ok? *)
open Registry
open Model_syn

let do_synok (txt : string) : string =
  match parse_string (explode txt) with
  | PErr _ -> "PARSE-ERR"
  | PPanic w -> "PARSE-PANIC"
  | PHang w -> "PARSE-HANG"
  | POk p ->
    let v = (match typecheck p with Accept _ -> "ACCEPT" | Reject -> "REJECT" | RejectInternal _ -> "REJECT-INTERNAL" | Diverge _ -> "HANG") in
    (if prog_syn_ok p then "SYN-OK " else "SYN-BAD ") ^ v

let () = register "synok" do_synok
