(* Extraction of the checked run (C04): the interpreter model run in Async mode with the local
   invariant of proofs/SaxRefine.v tested at every configuration a step is taken from. *)
Require Import Coq.extraction.Extraction Coq.extraction.ExtrOcamlBasic Coq.extraction.ExtrOcamlString.
Require Import Grits.Base Grits.Expand Grits.Dump Grits.Tc Grits.TcTop Grits.Runtime Grits.proofs.SaxRefine Grits.proofs.SaxTyped Grits.proofs.SaxAccept Grits.proofs.SaxDrop Grits.proofs.SaxSplit Grits.proofs.SaxNP Grits.proofs.SaxTwo.
Extraction Language OCaml.
Extraction "model_sax.ml" parse_string typecheck init_config exec_run exec_checked labels c04_premises_text c04_core_text c04_drop_text c04_all_text c04_all2_text c04_np_plain_text c04_np_fwd_text.
