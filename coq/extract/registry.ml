(* registry.ml — subcommands of the model driver register themselves here (drv_*.ml). *)
let table : (string, string -> string) Hashtbl.t = Hashtbl.create 16
let register (name : string) (f : string -> string) : unit = Hashtbl.replace table name f

let explode (s : string) : char list = List.init (String.length s) (String.get s)
let implode (l : char list) : string =
  let b = Buffer.create 64 in List.iter (Buffer.add_char b) l; Buffer.contents b
let unhex (h : string) : string =
  let n = String.length h / 2 in
  String.init n (fun i -> Char.chr (int_of_string ("0x" ^ String.sub h (2 * i) 2)))
let hex (s : string) : string =
  let b = Buffer.create (2 * String.length s) in
  String.iter (fun c -> Buffer.add_string b (Printf.sprintf "%02x" (Char.code c))) s; Buffer.contents b
