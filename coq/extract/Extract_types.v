(* Extraction of the type well-formedness area: the observables of the wf / wfann suites. *)
Require Import Coq.extraction.Extraction Coq.extraction.ExtrOcamlBasic Coq.extraction.ExtrOcamlString.
Require Import Grits.Base Grits.WFObs.
Extraction Language OCaml.
Extraction "model_types.ml" wf_obs wfann_obs.
