(* Extraction of the interpreter model (ExtrOcamlBasic + ExtrOcamlString only; std++ gmap extracts
   as ordinary OCaml code). *)
Require Import Coq.extraction.Extraction Coq.extraction.ExtrOcamlBasic Coq.extraction.ExtrOcamlString.
Require Import Grits.Base Grits.Expand Grits.Dump Grits.Tc Grits.TcTop Grits.Runtime.
Extraction Language OCaml.
Extraction "model_run.ml" parse_string typecheck init_config exec_run exec_trace labels live.
