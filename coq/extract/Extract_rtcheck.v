(* Extraction of the checker for the premise `static_typed` of C01 / C02 (proofs/RtStaticCheck.v). *)
Require Import Coq.extraction.Extraction Coq.extraction.ExtrOcamlBasic Coq.extraction.ExtrOcamlString.
Require Import Grits.Base Grits.proofs.RtStaticCheck.
Extraction Language OCaml.
Extraction "model_rtcheck.ml" static_check_text.
