(* Extraction of the checker for the premise `static_typed` of C01 / C02 (proofs/RtStaticCheck.v) and
   of the executable test of `Topo` along model runs (proofs/TopoCheck.v), and of the two computable
   premises prog_syn_ok / rt_syn_ok of the theorems of proofs/RtTheoremsTc.v. *)
Require Import Coq.extraction.Extraction Coq.extraction.ExtrOcamlBasic Coq.extraction.ExtrOcamlString.
Require Import Grits.Base Grits.Runtime Grits.proofs.RtStaticCheck Grits.proofs.TopoCheck Grits.proofs.RtTheoremsTc.
Extraction Language OCaml.
Extraction "model_rtcheck.ml" static_check_text topo_check_text syn_premises_text.
