(* Extraction of the checker for the premise `static_typed` of C01 / C02 (proofs/RtStaticCheck.v) and
   of the executable test of `Topo` along model runs (proofs/TopoCheck.v). *)
Require Import Coq.extraction.Extraction Coq.extraction.ExtrOcamlBasic Coq.extraction.ExtrOcamlString.
Require Import Grits.Base Grits.Runtime Grits.proofs.RtStaticCheck Grits.proofs.TopoCheck.
Extraction Language OCaml.
Extraction "model_rtcheck.ml" static_check_text topo_check_text.
