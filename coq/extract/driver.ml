(* driver.ml — trusted glue: reads cases (one per line: id <TAB> hex-encoded text), runs the
   extracted model, prints one canonical line per case (same format as the Go probe). *)
open Model

let explode (s : string) : char list = List.init (String.length s) (String.get s)
let implode (l : char list) : string =
  let b = Buffer.create 64 in List.iter (Buffer.add_char b) l; Buffer.contents b

let unhex (h : string) : string =
  let n = String.length h / 2 in
  String.init n (fun i -> Char.chr (int_of_string ("0x" ^ String.sub h (2 * i) 2)))
let hex (s : string) : string =
  let b = Buffer.create (2 * String.length s) in
  String.iter (fun c -> Buffer.add_string b (Printf.sprintf "%02x" (Char.code c))) s; Buffer.contents b

let read_cases (file : string) : (string * string) list =
  let ic = open_in file in
  let rec go acc =
    match input_line ic with
    | line ->
      (match String.index_opt line '\t' with
       | Some i -> go ((String.sub line 0 i, unhex (String.sub line (i + 1) (String.length line - i - 1))) :: acc)
       | None -> go acc)
    | exception End_of_file -> close_in ic; List.rev acc in
  go []

let do_scan (txt : string) : string =
  match scan_all (explode txt) with
  | ScanHang -> "HANG"
  | Tokens l ->
    String.concat " " (List.map (fun (k, lx) ->
        let nm = implode (tk_name k) in
        if nm = "ILLEGAL" || nm = "EOF" then nm else nm ^ ":" ^ hex (implode lx)) l)

let do_parse (txt : string) : string =
  match parse_string (explode txt) with
  | PErr _ -> "ERR"
  | PPanic w -> "PANIC"
  | PHang w -> "HANG"
  | POk p -> "OK\t" ^ String.concat " ;; " (List.map implode (dump_program false p))

let () =
  let cmd = Sys.argv.(1) in
  let cases = read_cases Sys.argv.(2) in
  let f = match cmd with
    | "scan" -> do_scan
    | "parse" -> do_parse
    | _ -> prerr_endline "unknown subcommand"; exit 2 in
  List.iter (fun (id, txt) -> print_string id; print_char '\t'; print_endline (f txt)) cases
