(* driver.ml — trusted glue: reads cases (one per line: id <TAB> hex-encoded text), runs the
   extracted model subcommand, prints one canonical line per case (same format as the Go probe).
   An OCaml exception / stack overflow in the model is printed as EXN (never hidden). *)
let read_cases (file : string) : (string * string) list =
  let ic = open_in file in
  let rec go acc =
    match input_line ic with
    | line ->
      (match String.index_opt line '\t' with
       | Some i -> go ((String.sub line 0 i, Registry.unhex (String.sub line (i + 1) (String.length line - i - 1))) :: acc)
       | None -> go acc)
    | exception End_of_file -> close_in ic; List.rev acc in
  go []

let () =
  let cmd = Sys.argv.(1) in
  let f = match Hashtbl.find_opt Registry.table cmd with
    | Some f -> f
    | None -> prerr_endline ("unknown subcommand " ^ cmd); exit 2 in
  let cases = read_cases Sys.argv.(2) in
  List.iter (fun (id, txt) ->
      let r = try f txt with Stack_overflow -> "EXN stack-overflow" | e -> "EXN " ^ Printexc.to_string e in
      print_string id; print_char '\t'; print_endline r) cases
