#!/bin/bash
# extract the model and build the OCaml driver: build.sh <output binary>
set -eu
cd "$(dirname "$0")"
out="$1"
rm -f model.ml model.mli
coqc -Q ../theories Grits Extract.v >/dev/null
rm -f Extract.vo Extract.glob Extract.vok Extract.vos .Extract.aux
ocamlfind ocamlopt -O3 -w -a -package str model.mli model.ml driver.ml -o "$out" 2>/dev/null || ocamlfind ocamlopt -w -a model.mli model.ml driver.ml -o "$out"
rm -f *.cmi *.cmx *.o
