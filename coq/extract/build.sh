#!/bin/bash
# extract the model (one OCaml module per Extract_<area>.v) and build the driver: build.sh <output binary>
set -eu
cd "$(dirname "$0")"
out="$1"
rm -f model_*.ml model_*.mli
for f in Extract_*.v; do
  coqc -Q ../theories Grits "$f" >/dev/null
  b="${f%.v}"; rm -f "$b.vo" "$b.glob" "$b.vok" "$b.vos" ".$b.aux"
done
srcs=""
for m in model_*.ml; do srcs="$srcs ${m%.ml}.mli $m"; done
ocamlfind ocamlopt -O3 -w -a $srcs registry.ml drv_*.ml driver.ml -o "$out" 2>/dev/null || ocamlfind ocamlopt -w -a $srcs registry.ml drv_*.ml driver.ml -o "$out"
rm -f *.cmi *.cmx *.o
