#!/bin/bash
# extract the model (one OCaml module per Extract_<area>.v) and build the driver: build.sh <output binary>
# An area whose extraction or compilation fails is left out (its subcommands are then missing) and
# named in <output binary>.failed ; the build only fails when no driver can be linked at all.
set -u
cd "$(dirname "$0")"
out="$1"
rm -f model_*.ml model_*.mli "$out.failed"
failed=""
for f in Extract_*.v; do
  area="${f#Extract_}"; area="${area%.v}"
  if ! coqc -Q ../theories Grits "$f" >/dev/null 2>"/tmp/extract_$area.$$.err"; then
    failed="$failed $area"; rm -f "model_$area.ml" "model_$area.mli"
    echo "extraction of area $area failed: $(tail -3 /tmp/extract_$area.$$.err | tr '\n' ' ')" >&2
  fi
  rm -f "/tmp/extract_$area.$$.err"
  b="${f%.v}"; rm -f "$b.vo" "$b.glob" "$b.vok" "$b.vos" ".$b.aux"
done
srcs=""; drvs=""
for m in model_*.ml; do
  [ -e "$m" ] || continue
  area="${m#model_}"; area="${area%.ml}"
  # compile each area on its own first, so that one broken driver file does not take the others down
  if ocamlfind ocamlopt -w -a -c "model_$area.mli" "model_$area.ml" registry.ml "drv_$area.ml" >/dev/null 2>&1; then
    srcs="$srcs model_$area.mli model_$area.ml"; drvs="$drvs drv_$area.ml"
  else
    failed="$failed $area"; echo "OCaml compilation of area $area failed" >&2
  fi
done
rm -f *.cmi *.cmx *.o
[ -n "$failed" ] && echo "$failed" > "$out.failed"
ocamlfind ocamlopt -O3 -w -a $srcs registry.ml $drvs driver.ml -o "$out" 2>/dev/null || ocamlfind ocamlopt -w -a $srcs registry.ml $drvs driver.ml -o "$out"
rc=$?
rm -f *.cmi *.cmx *.o
exit $rc
