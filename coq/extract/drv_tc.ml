(* drv_tc.ml — typechecker subcommand: tc (same output format as the Go probe) *)
open Registry
open Model_tc

let do_tc (txt : string) : string =
  match parse_string (explode txt) with
  | PErr _ -> "PARSE-ERR"
  | PPanic w -> "PARSE-PANIC"
  | PHang w -> "PARSE-HANG"
  | POk p ->
    (match typecheck p with
     | Accept p' -> "ACCEPT\t" ^ String.concat " ;; " (List.map implode (dump_program true p'))
     | Reject -> "REJECT"
     | RejectInternal w -> "REJECT-INTERNAL " ^ implode w
     | Diverge w -> "HANG " ^ implode w)

let () = register "tc" do_tc
