(* drv_sax.ml — saxcheck-<seed>: parse, typecheck, run the model in Async mode under the schedule
   derived from seed WITH the invariant of the SAX refinement (proofs/SaxRefine.v, `inv_b`) checked
   before every step.  CHECKED: the check held along the whole run, so by `prints_admitted_checked`
   the labels are printed by an execution of spec/Sax.v.  INV-FAIL: the check failed somewhere
   (a construct outside the linear fragment, or a configuration the refinement does not cover). *)
open Registry
open Model_sax

let rec nat_of_int (n : int) : nat = if n <= 0 then O else S (nat_of_int (n - 1))
let rec int_of_nat (n : nat) : int = match n with O -> 0 | S k -> 1 + int_of_nat k

let do_check (seed : int) (txt : string) : string =
  match parse_string (explode txt) with
  | POk p ->
    (match typecheck p with
     | Accept p' ->
       let mk () =
         let st = ref seed in
         fun (_ : nat) (n : nat) ->
           if seed = 0 then O
           else begin
             st := (!st * 1103515245 + 12345) land 0x3fffffff;
             nat_of_int ((!st lsr 8) mod (max 1 (int_of_nat n)))
           end in
       let show c = String.concat "," (List.map implode (labels c)) in
       (match exec_checked (nat_of_int 200000) (mk ()) p'.p_types p'.p_funs (init_config p') with
        | Some (RQuiescent c) -> "CHECKED\torder=" ^ show c
        | Some (RError (c, _, e)) -> "CHECKED-RT-ERROR\torder=" ^ show c ^ "\terr=" ^ implode e
        | Some (ROutOfFuel c) -> "CHECKED-OUTOFFUEL\torder=" ^ show c
        | None ->
          (match exec_run (nat_of_int 200000) (mk ()) Async p'.p_types p'.p_funs (init_config p') with
           | RQuiescent c -> "INV-FAIL\torder=" ^ show c
           | _ -> "INV-FAIL"))
     | _ -> "REJECT")
  | _ -> "PARSE-ERR"

(* c04premises: the computable premises of C04_prints_admitted (closed, init_linear) on the
   program text: where the answer is PREMISES-OK the theorem covers EVERY run of the program in the two
   polarized modes *)
let do_premises (txt : string) : string =
  if c04_premises_text (explode txt) then "PREMISES-OK" else "PREMISES-NO"

(* c04core: the premises of C04_prints_admitted_core — parses, accepted, closed, core_src_b on the SOURCE
   program (init_linear is then a theorem: DeterminismAccept.init_linear_parsed) *)
let do_core (txt : string) : string =
  if c04_core_text (explode txt) then "CORE-OK" else "CORE-NO"

let () =
  register "c04premises" do_premises;
  register "c04core" do_core;
  (* c04drop: the premises of C04_prints_admitted_drop — parses, accepted, closed, no split and one provider
     name per process (drop allowed) *)
  register "c04drop" (fun txt -> if c04_drop_text (explode txt) then "DROP-OK" else "DROP-NO");
  (* c04all: the premises of C04_prints_admitted_all — parses, accepted, closed, one provider name per
     declaration (drop and split allowed) *)
  register "c04all" (fun txt -> if c04_all_text (explode txt) then "ALL-OK" else "ALL-NO");
  (* c04all2: the premises of C04_prints_admitted_all2 — parses, accepted, closed, ONE OR TWO provider names per
     declaration: every run in the two polarized modes is a run of Sax.v from spec/SaxInit2.sax_init2 *)
  register "c04all2" (fun txt -> if c04_all2_text (explode txt) then "ALL2-OK" else "ALL2-NO");
  (* c04npplain / c04npfwd: the premises of C04_prints_admitted_np_plain / _np_fwd — parses, accepted, closed,
     plain_src_b (no forward, drop, split) / fwf_src_b (no drop, split; forwards allowed) on the SOURCE, one provider
     name per process: every run in ALL THREE modes, the non-polarized one included, is a run of Sax.v *)
  register "c04npplain" (fun txt -> if c04_np_plain_text (explode txt) then "NPPLAIN-OK" else "NPPLAIN-NO");
  register "c04npfwd" (fun txt -> if c04_np_fwd_text (explode txt) then "NPFWD-OK" else "NPFWD-NO");
  List.iter (fun seed -> register (Printf.sprintf "saxcheck-%d" seed) (do_check seed)) [0; 1; 2; 3]
