(* drv_eq.ml — subcommands eq, formrt (same output format as harness/typeseq.go).  The model has no
   sanity check of its own here: it always answers, and appends WF=<wf_env D>; the check compares
   the two sides only on environments the implementation accepts and requires WF=1 there. *)
open Registry
open Model_eq

let query_index (nm : string) : int option =
  let n = String.length nm in
  if n >= 2 && nm.[0] = 'Q' && (let ok = ref true in String.iteri (fun i c -> if i > 0 && not (c >= '0' && c <= '9') then ok := false) nm; !ok)
  then int_of_string_opt (String.sub nm 1 (n - 1)) else None

let pool (defs : tdef list) : tdef list =
  let qs = List.filter_map (fun d -> match query_index (implode d.td_name) with Some i -> Some (i, d) | None -> None) defs in
  List.map snd (List.stable_sort (fun (i, _) (j, _) -> compare i j) qs)

let bit_of (o : bool outcome) : string =
  match o with Ok true -> "1" | Ok false -> "0" | Panic _ -> "P" | Hang _ -> "H"

let find_def (defs : tdef list) (nm : string) : tdef option =
  List.fold_left (fun acc d -> if implode d.td_name = nm then Some d else acc) None defs

let round_trip (text : string) (qs : tdef list) : string =
  let line i d = "\ntype Rt" ^ string_of_int i ^ " = " ^ implode (mode_short (mode_of d.td_body)) ^ " " ^ implode (m_print_type d.td_body) in
  let all = text ^ String.concat "" (List.mapi line qs) in
  let judge defs i d =
    match find_def defs ("Rt" ^ string_of_int i) with
    | None -> "E"
    | Some r -> if dump_type r.td_body = dump_type d.td_body then "1" else "0" in
  match parse_string (explode all) with
  | POk p -> String.concat "" (List.mapi (judge p.p_types) qs)
  | _ ->
    String.concat "" (List.mapi (fun i d ->
        match parse_string (explode (text ^ line i d)) with
        | POk p -> judge p.p_types i d
        | _ -> "E") qs)

let do_eq (txt : string) : string =
  match parse_string (explode txt) with
  | PErr _ -> "PARSE-ERR"
  | PPanic _ -> "PANIC"
  | PHang _ -> "HANG"
  | POk p ->
    let defs = p.p_types in
    let qs = pool defs in
    let n = List.length qs in
    let bodies = List.map (fun d -> d.td_body) qs in
    let names = List.map (fun d -> TName (d.td_name, d.td_mode)) qs in
    (* TcDeps.eq_ty with one outer fuel >= eq_fuel of every pair (shared: building the unary number
       once per case instead of once per pair); the diagonal also goes through TcDeps.equal_type itself *)
    let fuel = m_pool_fuel defs (bodies @ names) in
    let matrix l = String.concat "" (List.concat_map (fun a -> List.map (fun b ->
        if a == b then (let x = bit_of (m_equal_type defs a b) and y = bit_of (m_equal_with fuel defs a b) in if x = y then x else "X")
        else bit_of (m_equal_with fuel defs a b)) l) l) in
    let strs = List.map (fun t -> hex (implode (m_print_type t)) ^ ":" ^ hex (implode (m_print_with_modality t)) ^ ":" ^ hex (implode (m_print_outer t)) ^ ":" ^ hex (implode (dump_type t))) bodies in
    "OK\t" ^ string_of_int n ^ "\t" ^ matrix bodies ^ "\t" ^ matrix names ^ "\t" ^ String.concat " " strs ^ "\t" ^ round_trip txt qs
    ^ "\tWF=" ^ (if m_wf_env defs then "1" else "0")

let replace_all (s : string) (a : string) (b : string) : string =
  let la = String.length a in
  let buf = Buffer.create (String.length s) in
  let i = ref 0 in
  while !i < String.length s do
    if !i + la <= String.length s && String.sub s !i la = a then (Buffer.add_string buf b; i := !i + la)
    else (Buffer.add_char buf s.[!i]; incr i)
  done; Buffer.contents buf
let no_pol (d : char list) : string = replace_all (replace_all (implode d) " + _)" " _ _)") " - _)" " _ _)"

let do_formrt (txt : string) : string =
  match parse_string (explode txt) with
  | PErr _ -> "PARSE-ERR"
  | PPanic _ -> "PANIC"
  | PHang _ -> "HANG"
  | POk p ->
    let one pr =
      let printed = implode (m_print_form pr.pr_body) in
      let r = match parse_string (explode ("prc[rtprov] = " ^ printed)) with
        | POk q -> (match q.p_procs with
            | [pr2] -> if no_pol (dump_form false pr2.pr_body) = no_pol (dump_form false pr.pr_body) then "1" else "0"
            | _ -> "E")
        | _ -> "E" in
      (r, hex printed) in
    let rs = List.map one p.p_procs in
    "OK\t" ^ String.concat "" (List.map fst rs) ^ "\t" ^ String.concat " " (List.map snd rs)

let () = register "eq" do_eq; register "formrt" do_formrt
