(* drv_rtcheck.ml — static-typed: does the annotated output of the typechecker model satisfy the
   run-time typing judgement (premise tc_annotations_typed of C01 / C02)? *)
open Registry
open Model_rtcheck

let () =
  register "static-typed" (fun txt ->
      match static_check_text (explode txt) with
      | SV_typed -> "TYPED"
      | SV_not_typed -> "NOT-TYPED"
      | SV_outside_fragment -> "OUTSIDE-FRAGMENT"
      | SV_rejected -> "REJECT"
      | SV_parse_error -> "PARSE-ERR")
