(* drv_rtcheck.ml — static-typed: does the annotated output of the typechecker model satisfy the
   run-time typing judgement (premise tc_annotations_typed of C01 / C02)?
   topo-<async|sync|np>-<seed>: does every configuration of one model run satisfy the test of Topo
   (premise topo_reachable)?
   syn-premises: the computable premises prog_syn_ok / raw_ok of the theorems that no longer assume
   tc_annotations_typed (sound: syn_premises_sound; both are theorems for parsed programs, so the answer
   SYN-OK on every accepted closed program is a cross-check of proofs/ParseSynOk.v, ParseRaw.v). *)
open Registry
open Model_rtcheck

let rec nat_of_int (n : int) : nat = if n <= 0 then O else S (nat_of_int (n - 1))
let rec int_of_nat (n : nat) : int = match n with O -> 0 | S k -> 1 + int_of_nat k

let () =
  register "static-typed" (fun txt ->
      match static_check_text (explode txt) with
      | SV_typed -> "TYPED"
      | SV_not_typed -> "NOT-TYPED"
      | SV_outside_fragment -> "OUTSIDE-FRAGMENT"
      | SV_rejected -> "REJECT"
      | SV_parse_error -> "PARSE-ERR");
  register "syn-premises" (fun txt ->
      match syn_premises_text (explode txt) with
      | SY_ok -> "SYN-OK"
      | SY_types_not_syn -> "TYPES-NOT-SYN"
      | SY_names_not_syn -> "NAMES-NOT-SYN"
      | SY_outside_fragment -> "OUTSIDE-FRAGMENT"
      | SY_rejected -> "REJECT"
      | SY_parse_error -> "PARSE-ERR");
  List.iter (fun (nm, md) ->
      List.iter (fun seed ->
          register (Printf.sprintf "topo-%s-%d" nm seed) (fun txt ->
              let st = ref seed in
              let pick (_ : nat) (n : nat) : nat =
                if seed = 0 then O
                else begin
                  st := (!st * 1103515245 + 12345) land 0x3fffffff;
                  nat_of_int ((!st lsr 8) mod (max 1 (int_of_nat n)))
                end in
              match topo_check_text (explode txt) md pick with
              | None -> "SKIP"
              | Some (TR_ok n) -> Printf.sprintf "TOPO-OK %d" (int_of_nat n)
              | Some (TR_bad (n, code)) -> Printf.sprintf "TOPO-BAD step=%d part=%d" (int_of_nat n) (int_of_nat code)
              | Some (TR_error n) -> Printf.sprintf "RT-ERROR step=%d" (int_of_nat n)))
        [0; 1; 2; 3])
    [("async", Async); ("sync", Sync); ("np", NP)]
