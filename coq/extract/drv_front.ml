(* drv_front.ml — front-end subcommands: scan, parse (same output format as the Go probe) *)
open Registry
open Model_front

let do_scan (txt : string) : string =
  match scan_all (explode txt) with
  | ScanHang -> "HANG"
  | Tokens l ->
    String.concat " " (List.map (fun (k, lx) ->
        let nm = implode (tk_name k) in
        if nm = "ILLEGAL" || nm = "EOF" then nm else nm ^ ":" ^ hex (implode lx)) l)

let do_parse (txt : string) : string =
  match parse_string (explode txt) with
  | PErr _ -> "ERR"
  | PPanic w -> "PANIC"
  | PHang w -> "HANG"
  | POk p -> "OK\t" ^ String.concat " ;; " (List.map implode (dump_program false p))

let () = register "scan" do_scan; register "parse" do_parse
