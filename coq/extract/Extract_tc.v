(* Extraction of the typechecker model (ExtrOcamlBasic + ExtrOcamlString only). *)
Require Import Coq.extraction.Extraction Coq.extraction.ExtrOcamlBasic Coq.extraction.ExtrOcamlString.
Require Import Grits.Base Grits.Expand Grits.Dump Grits.Tc Grits.TcTop.
Extraction Language OCaml.
Extraction "model_tc.ml" parse_string dump_program typecheck.
