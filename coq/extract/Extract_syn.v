(* Extraction of the syntactic side condition of the bisimilarity instance of C07 (spec/SynOk.v):
   the driver evaluates prog_syn_ok on every parsed program of the C07 check. *)
Require Import Coq.extraction.Extraction Coq.extraction.ExtrOcamlBasic Coq.extraction.ExtrOcamlString.
Require Import Grits.Base Grits.Expand Grits.Tc Grits.TcTop Grits.spec.SynOk.
Extraction Language OCaml.
Extraction "model_syn.ml" parse_string prog_syn_ok typecheck.
