(* Extraction of the instrumented run that evaluates the side conditions of the C03 commutation
   theorems (RuntimeFootprint.v) at every configuration it visits. *)
Require Import Coq.extraction.Extraction Coq.extraction.ExtrOcamlBasic Coq.extraction.ExtrOcamlString.
Require Import Grits.Base Grits.Expand Grits.Dump Grits.Tc Grits.TcTop Grits.Runtime Grits.RuntimeFootprint Grits.proofs.RtStaticCheck Grits.proofs.InitLinear Grits.proofs.RtTcSyn Grits.proofs.LinBridge Grits.proofs.InitAccept Grits.proofs.InvAll Grits.proofs.DeterminismAll Grits.proofs.DeterminismNP Grits.proofs.DeterminismNPCfree.
Extraction Language OCaml.
Extraction "model_compat.ml" parse_string typecheck init_config exec_check bad_pairs fj_cfg_b fj_funs_b in_fragment_b init_linear_b core_src_b all_src_b np_src_b cfree_src_b.
