(* Extraction of the executable model.  Directives used: those of ExtrOcamlBasic (bool, option,
   unit, list, prod, sumbool, sumor -> OCaml's) and ExtrOcamlString (ascii -> char, string -> char
   list).  nat, Z, N, positive stay the extracted inductive datatypes. *)
Require Import Coq.extraction.Extraction Coq.extraction.ExtrOcamlBasic Coq.extraction.ExtrOcamlString.
Require Import Grits.Base Grits.Tokens Grits.Scan Grits.Expand Grits.Dump.
Extraction Language OCaml.
Extraction "model_front.ml" tk_name scan_all parse_string dump_program.
