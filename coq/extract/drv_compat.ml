(* drv_compat.ml — compat-<async|sync>-<seed>: parse, typecheck, run the model under the schedule
   derived from seed, and at every configuration visited evaluate the hypotheses of the C03
   determinism theorem (any two distinct enabled choices independent; errors stable) on every ordered
   pair of enabled choices.  Output: tag, configurations visited, pairs evaluated, pairs that fail. *)
open Registry
open Model_compat

let rec nat_of_int (n : int) : nat = if n <= 0 then O else S (nat_of_int (n - 1))
let rec int_of_nat (n : nat) : int = match n with O -> 0 | S k -> 1 + int_of_nat k

let do_compat (md : exec_mode) (seed : int) (txt : string) : string =
  match parse_string (explode txt) with
  | PErr _ -> "PARSE-ERR"
  | PPanic _ -> "PARSE-PANIC"
  | PHang _ -> "PARSE-HANG"
  | POk p ->
    (match typecheck p with
     | Accept p' ->
       let st = ref seed in
       let pick (_ : nat) (n : nat) : nat =
         if seed = 0 then O
         else begin
           st := (!st * 1103515245 + 12345) land 0x3fffffff;
           nat_of_int ((!st lsr 8) mod (max 1 (int_of_nat n)))
         end in
       let (res, s) = exec_check (nat_of_int 200000) pick md p'.p_types p'.p_funs (init_config p')
                        { ck_configs = O; ck_pairs = O; ck_bad = O } in
       let tag = match res with RQuiescent _ -> "RAN" | RError _ -> "RT-ERROR" | ROutOfFuel _ -> "OUTOFFUEL" in
       Printf.sprintf "%s\tconfigs=%d\tpairs=%d\tbad=%d" tag
         (int_of_nat s.ck_configs) (int_of_nat s.ck_pairs) (int_of_nat s.ck_bad)
     | Reject -> "REJECT"
     | RejectInternal _ -> "REJECT-INTERNAL"
     | Diverge _ -> "TC-HANG")

(* fjclass: is the program's initial configuration in the fork-join class (proofs/ForkJoin.v), for
   which determinism is proved with no hypothesis left? *)
let do_fjclass (txt : string) : string =
  match parse_string (explode txt) with
  | POk p ->
    (match typecheck p with
     | Accept p' -> if fj_funs_b p'.p_funs && fj_cfg_b (init_config p') then "FJ-IN" else "FJ-OUT"
     | _ -> "REJECT")
  | _ -> "PARSE-ERR"

(* initlin: does the accepted closed program satisfy init_linear (proofs/InitLinear.v), the static
   premise of determinism_typed_core? *)
let do_initlin (txt : string) : string =
  match parse_string (explode txt) with
  | POk p ->
    (match typecheck p with
     | Accept p' -> if in_fragment_b p' && init_linear_b p' then "LIN-IN" else "LIN-OUT"
     | _ -> "REJECT")
  | _ -> "PARSE-ERR"

(* coreaccept: the premises of determinism_core_accept (proofs/DeterminismAccept.v), all computed on the
   SOURCE program: no assumed names, core_src_b (raw_ok holds of every parsed program: ParseRaw).  By init_linear_accept these imply
   init_linear of the checker's output; the decision init_linear_b is printed next to it. *)
let do_coreaccept (txt : string) : string =
  match parse_string (explode txt) with
  | POk p ->
    (match typecheck p with
     | Accept p' ->
       if in_fragment_b p' && core_src_b p
       then (if init_linear_b p' then "ACC-IN\tlin=1" else "ACC-IN\tlin=0")
       else (if in_fragment_b p' && init_linear_b p' then "ACC-OUT\tlin=1" else "ACC-OUT\tlin=0")
     | _ -> "REJECT")
  | _ -> "PARSE-ERR"

(* allaccept: the premises of determinism_all (proofs/DeterminismAll.v): closed, and the source has no
   empty case and no droppable forward.  For these programs Topo along the runs is a theorem. *)
let do_allaccept (txt : string) : string =
  match parse_string (explode txt) with
  | POk p ->
    (match typecheck p with
     | Accept p' -> if in_fragment_b p' && all_src_b p then "ALL-IN" else (if in_fragment_b p' then "ALL-OUT-SRC" else "ALL-OUT-OPEN")
     | _ -> "REJECT")
  | _ -> "PARSE-ERR"

(* npaccept: the premises of determinism_np_plain / np_polarized_agree_plain (proofs/DeterminismNP.v): closed,
   all_src_b, and no forward / drop / split in the source with one provider name per process: for these
   programs the runs of the non-polarized mode are the synchronous runs. *)
let do_npaccept (txt : string) : string =
  match parse_string (explode txt) with
  | POk p ->
    (match typecheck p with
     | Accept p' -> if in_fragment_b p' && np_src_b p then "NP-IN" else "NP-OUT"
     | _ -> "REJECT")
  | _ -> "PARSE-ERR"

(* npcfree: the premises of determinism_np_cfree: closed and contraction-free source *)
let do_npcfree (txt : string) : string =
  match parse_string (explode txt) with
  | POk p ->
    (match typecheck p with
     | Accept p' -> if in_fragment_b p' && cfree_src_b p then "CF-IN" else "CF-OUT"
     | _ -> "REJECT")
  | _ -> "PARSE-ERR"

let () =
  register "fjclass" do_fjclass;
  register "npcfree" do_npcfree;
  register "npaccept" do_npaccept;
  register "allaccept" do_allaccept;
  register "coreaccept" do_coreaccept;
  register "initlin" do_initlin;
  List.iter (fun (nm, md) ->
      List.iter (fun seed -> register (Printf.sprintf "compat-%s-%d" nm seed) (do_compat md seed)) [0; 1; 2; 3; 4; 5; 6; 7])
    [("async", Async); ("sync", Sync)]
