(* Extraction of the type-equality / printing area (C08, C15).  Same directives as Extract_front.v. *)
Require Import Coq.extraction.Extraction Coq.extraction.ExtrOcamlBasic Coq.extraction.ExtrOcamlString.
Require Import Grits.Base Grits.ModeDefs Grits.Modes Grits.STypes Grits.Forms Grits.Expand Grits.Dump
               Grits.Print Grits.Equal Grits.EqualWF.
Extraction Language OCaml.
Extraction "model_eq.ml" parse_string dump_type dump_form mode_short mode_of
           print_type print_with_modality print_outer print_form
           eq_ty equal_type equal_type_in fuel_of universe eq_fuel wf_env wf_ty.
