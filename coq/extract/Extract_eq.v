(* Extraction of the type-equality / printing area (C08, C15).  Same directives as Extract_front.v.
   The m_* aliases give the driver stable names (TcDeps and Print/Equal both define print_type,
   eq_ty, ...; the extraction would otherwise rename one of each pair). *)
Require Import Coq.extraction.Extraction Coq.extraction.ExtrOcamlBasic Coq.extraction.ExtrOcamlString.
Require Import Grits.Base Grits.ModeDefs Grits.Modes Grits.STypes Grits.Forms Grits.Expand Grits.Dump.
Require Grits.Print Grits.TcDeps Grits.Equal Grits.EqualWF.
Definition m_print_type := Print.print_type.
Definition m_print_with_modality := Print.print_with_modality.
Definition m_print_outer := Print.print_outer.
Definition m_print_form := Print.print_form.
Definition m_equal_type := TcDeps.equal_type.   (* the function the typechecker model calls; = Equal.equal_type (proofs/EqualBridge.v) *)
Definition m_wf_env := EqualWF.wf_env.
Extraction Language OCaml.
Extraction "model_eq.ml" parse_string dump_type dump_form mode_short mode_of
           m_print_type m_print_with_modality m_print_outer m_print_form m_equal_type m_wf_env.
