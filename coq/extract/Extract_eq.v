(* Extraction of the type-equality / printing area (C08, C15).  Same directives as Extract_front.v.
   The m_* aliases give the driver stable names (TcDeps and Print/Equal both define print_type,
   eq_ty, ...; the extraction would otherwise rename one of each pair). *)
Require Import Coq.extraction.Extraction Coq.extraction.ExtrOcamlBasic Coq.extraction.ExtrOcamlString.
Require Import Grits.Base Grits.ModeDefs Grits.Modes Grits.STypes Grits.Forms Grits.Expand Grits.Dump.
Require Grits.Infer Grits.Print Grits.TcDeps Grits.Equal Grits.EqualWF.
Definition m_print_type := Print.print_type.
Definition m_print_with_modality := Print.print_with_modality.
Definition m_print_outer := Print.print_outer.
Definition m_print_form := Print.print_form.
Definition m_equal_type := TcDeps.equal_type.   (* the function the typechecker model calls; = Equal.equal_type (proofs/EqualBridge.v) *)
(* one outer fuel for a whole pool: eq_fuel is monotone in the sizes, so the fuel of the two largest
   types bounds the fuel of every pair (props/C08.v: equal_terminates_ge, eq_ty_sound_any,
   eq_ty_complete_any cover every fuel from eq_fuel upwards) *)
Definition m_pool_fuel (D : tenv) (pool : list sty) : nat :=
  let big := fold_right (fun t acc => if Nat.leb (Infer.tsize acc) (Infer.tsize t) then t else acc) (TUnit Unset) pool in
  TcDeps.eq_fuel D big big.
Definition m_equal_with (K : nat) (D : tenv) (s t : sty) : outcome bool :=
  match TcDeps.eq_ty K D (S (Infer.tsize s + Infer.tsize t)) s t [] with
  | Ok (b, _) => Ok b
  | Panic w => Panic w
  | Hang w => Hang w
  end.
Definition m_wf_env := EqualWF.wf_env.
Extraction Language OCaml.
Extraction "model_eq.ml" parse_string dump_type dump_form mode_short mode_of
           m_print_type m_print_with_modality m_print_outer m_print_form m_equal_type m_pool_fuel m_equal_with m_wf_env.
