(* drv_run.ml — interpreter subcommands: run-<async|sync>-<seed>: parse, typecheck, run the model
   under the schedule derived from seed (0 = canonical: always the first enabled choice) *)
open Registry
open Model_run

let rec nat_of_int (n : int) : nat = if n <= 0 then O else S (nat_of_int (n - 1))
let rec int_of_nat (n : nat) : int = match n with O -> 0 | S k -> 1 + int_of_nat k

let do_run (md : exec_mode) (seed : int) (txt : string) : string =
  match parse_string (explode txt) with
  | PErr _ -> "PARSE-ERR"
  | PPanic _ -> "PARSE-PANIC"
  | PHang _ -> "PARSE-HANG"
  | POk p ->
    (match typecheck p with
     | Accept p' ->
       let st = ref seed in
       let pick (_ : nat) (n : nat) : nat =
         if seed = 0 then O
         else begin
           st := (!st * 1103515245 + 12345) land 0x3fffffff;
           nat_of_int ((!st lsr 8) mod (max 1 (int_of_nat n)))
         end in
       let fin c tag extra =
         let ls = List.map implode (labels c) in
         let lv = live md p'.p_types c in
         let cnt k = List.length (List.filter (fun b -> b = k) lv) in
         Printf.sprintf "%s\tprints=%s\torder=%s\tlive=S%d,R%d,O%d%s" tag
           (String.concat "," (List.sort compare ls)) (String.concat "," ls)
           (cnt BSend) (cnt BRecv) (cnt BOther) extra in
       (match exec_run (nat_of_int 200000) pick md p'.p_types p'.p_funs (init_config p') with
        | RQuiescent c -> fin c "RAN" ""
        | RError (c, who, e) -> fin c "RT-ERROR" ("\terr=" ^ implode e)
        | ROutOfFuel c -> fin c "OUTOFFUEL" "")
     | Reject -> "REJECT"
     | RejectInternal w -> "REJECT-INTERNAL"
     | Diverge w -> "TC-HANG")

let pid_str (p : nat list) : string = String.concat "." (List.map (fun n -> string_of_int (int_of_nat n)) p)
let opt_str = function Some c -> pid_str c | None -> "-"

(* trace-<mode>-<seed>: the events of one model run: pids;send;recv;labels;spawned separated by | *)
let do_trace (md : exec_mode) (seed : int) (txt : string) : string =
  match parse_string (explode txt) with
  | POk p ->
    (match typecheck p with
     | Accept p' ->
       let st = ref seed in
       let pick (_ : nat) (n : nat) : nat =
         if seed = 0 then O
         else begin
           st := (!st * 1103515245 + 12345) land 0x3fffffff;
           nat_of_int ((!st lsr 8) mod (max 1 (int_of_nat n)))
         end in
       let (res, evs) = exec_trace (nat_of_int 200000) pick md p'.p_types p'.p_funs (init_config p') [] in
       let tag = match res with RQuiescent _ -> "RAN" | RError _ -> "RT-ERROR" | ROutOfFuel _ -> "OUTOFFUEL" in
       tag ^ "\t" ^ String.concat "|" (List.map (fun e ->
           Printf.sprintf "%s;%s;%s;%s;%s"
             (String.concat "," (List.map pid_str e.ev_pids)) (opt_str e.ev_send) (opt_str e.ev_recv)
             (String.concat "," (List.map implode e.ev_labels))
             (String.concat "," (List.map pid_str e.ev_spawned))) evs)
     | _ -> "REJECT")
  | _ -> "PARSE-ERR"

let () =
  List.iter (fun (nm, md) ->
      List.iter (fun seed -> register (Printf.sprintf "trace-%s-%d" nm seed) (do_trace md seed)) [0; 1; 2; 3])
    [("async", Async); ("sync", Sync); ("np", NP)];
  List.iter (fun (nm, md) ->
      List.iter (fun seed -> register (Printf.sprintf "run-%s-%d" nm seed) (do_run md seed)) [0; 1; 2; 3; 4; 5; 6; 7])
    [("async", Async); ("sync", Sync); ("np", NP)]
