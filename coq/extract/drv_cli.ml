(* drv_cli.ml — cli-<tc><notc><ex><noex><sync><async> (six 0/1 digits): the CLI model on a file
   content; `cli-missing-…` for a file that cannot be opened *)
open Registry
open Model_cli

let rec nat_of_int (n : int) : nat = if n <= 0 then O else S (nat_of_int (n - 1))
let rec int_of_nat (n : nat) : int = match n with O -> 0 | S k -> 1 + int_of_nat k

let show (o : cli_out) : string =
  Printf.sprintf "exit=%d\tdiags=%d\tran=%b\ttrace=%b\tlabels=%s" (int_of_nat o.co_exit) (int_of_nat o.co_diags) o.co_ran o.co_trace
    (String.concat "," (List.sort compare (List.map implode o.co_labels)))

let () =
  for bits = 0 to 63 do
    let b i = (bits lsr (5 - i)) land 1 = 1 in
    let f = { fl_typecheck = b 0; fl_notypecheck = b 1; fl_execute = b 2; fl_noexecute = b 3; fl_sync = b 4; fl_async = b 5 } in
    let name = Printf.sprintf "cli-%d%d%d%d%d%d" (Bool.to_int (b 0)) (Bool.to_int (b 1)) (Bool.to_int (b 2)) (Bool.to_int (b 3)) (Bool.to_int (b 4)) (Bool.to_int (b 5)) in
    register name (fun txt -> show (cli (fun _ _ -> O) (nat_of_int 200000) f (Some (explode txt))));
    register (name ^ "-missing") (fun _ -> show (cli (fun _ _ -> O) (nat_of_int 10) f None))
  done
