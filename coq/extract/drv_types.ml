(* drv_types.ml — type well-formedness subcommands: wf, wfann (same output format as the Go probe,
   except that the model appends ":<error class>" to REJECT; the suite projects it away) *)
open Registry

let () =
  register "wf" (fun txt -> implode (Model_types.wf_obs (explode txt)));
  register "wfann" (fun txt -> implode (Model_types.wfann_obs (explode txt)))
