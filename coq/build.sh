#!/bin/bash
# Full .vo build of the development (never -vos). Usage: coq/build.sh [make args]
set -u
cd "$(dirname "$0")"
{ cat _CoqProject.head; find theories -name '*.v' ! -path 'theories/diag/*' | LC_ALL=C sort; } > _CoqProject.new
if ! cmp -s _CoqProject.new _CoqProject 2>/dev/null; then mv _CoqProject.new _CoqProject; coq_makefile -f _CoqProject -o Makefile >/dev/null 2>&1 || exit 3; else rm -f _CoqProject.new; fi
exec make -k -j"${COQ_JOBS:-16}" "$@"
