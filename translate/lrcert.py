#!/usr/bin/env python3
"""Certificate generator for the LR driver theorems (C11 termination, C12 soundness).

  lrcert.py /repo/parser/parser.y.go  > gen/LRCert.v

Re-implements the goyacc table interpretation (action / goto), computes the closure of the
automaton's edges (shift edges and goto edges along backward paths), asks z3 for two weight
tables wIn / wTop such that every reduction strictly decreases
    Phi(stack) = wTop(top) + sum wIn(rest)
along every backward path, and reads the right-hand side of every production off the accessing
symbols (gritsChk) of the states along backward paths.

UNTRUSTED: nothing computed here is believed.  proofs/LRCheck.v re-checks the edge list, the
weights and the right-hand sides by computation inside Coq against gen/LRTables.v
(proofs/LRCertInst.v), and the generic theorems of proofs/LRProof.v / LRSound.v only assume that
this boolean check returned true.  If z3 finds no weights the generated certificate is empty and
the Coq check fails (the property is then reported as no longer shown)."""
import hashlib
import re
import sys

ARRAYS = ["Exca", "Act", "Pact", "Pgo", "R1", "R2", "Chk", "Def", "Tok1", "Tok2", "Tok3"]
CONSTS = ["Private", "Last", "Flag", "EofCode", "ErrCode"]


def parse_tables(src):
    T = {}
    for a in ARRAYS:
        m = re.search(r"var grits%s = \[\.\.\.\]\w+\{(.*?)\n\}" % a, src, re.S)
        if not m:
            raise RuntimeError("array grits%s not found" % a)
        body = re.sub(r"//[^\n]*", "", m.group(1))
        T[a] = [int(x) for x in re.findall(r"-?\d+", body)]
    for c in CONSTS:
        m = re.search(r"const grits%s = (-?\d+)" % c, src)
        if not m:
            raise RuntimeError("const grits%s not found" % c)
        T[c] = int(m.group(1))
    T["toks"] = [(n, int(v)) for n, v in re.findall(r"^const ([A-Z_0-9]+) = (\d+)$", src, re.M)]
    return T


def tables_digest(T):
    return hashlib.sha256(repr(sorted((k, v) for k, v in T.items())).encode()).hexdigest()[:16]


class Automaton:
    def __init__(self, T):
        self.T = T
        self.NS = len(T["Pact"])

    def nth(self, name, i):
        l = self.T[name]
        return l[i] if 0 <= i < len(l) else 0     # as nthZ in LR.v

    def lex1(self, c):
        T = self.T
        if c <= 0:
            t = self.nth("Tok1", 0)
        elif c < len(T["Tok1"]):
            t = self.nth("Tok1", c)
        elif T["Private"] <= c < T["Private"] + len(T["Tok2"]):
            t = self.nth("Tok2", c - T["Private"])
        else:
            t = 0
            tk3 = T["Tok3"]
            for i in range(0, len(tk3) - 1, 2):
                if tk3[i] == c:
                    t = tk3[i + 1]
                    break
        return self.nth("Tok2", 1) if t == 0 else t

    def look_toks(self):
        out = [self.lex1(0)]
        for _, c in self.T["toks"]:
            t = self.lex1(c)
            if t not in out:
                out.append(t)
        return out

    def action(self, st, tok):
        T = self.T
        n = self.nth("Pact", st)
        if n > T["Flag"]:
            n2 = n + tok
            if 0 <= n2 < T["Last"]:
                a = self.nth("Act", n2)
                if self.nth("Chk", a) == tok:
                    return ("shift", a)
        d = self.nth("Def", st)
        d2 = d
        if d == -2:
            ex = T["Exca"]
            rest = None
            i = 0
            while i + 1 < len(ex):
                if ex[i] == -1 and ex[i + 1] == st:
                    rest = ex[i + 2:]
                    break
                i += 2
            d2 = 0
            if rest is not None:
                i = 0
                while i + 1 < len(rest):
                    if rest[i] < 0 or rest[i] == tok:
                        d2 = rest[i + 1]
                        break
                    i += 2
        if d == -2 and d2 < 0:
            return ("accept",)
        if d2 == 0:
            return ("error",)
        return ("reduce", d2)

    def goto(self, s0, p):
        T = self.T
        n = self.nth("R1", p)
        g = self.nth("Pgo", n)
        j = g + s0 + 1
        if T["Last"] <= j:
            return self.nth("Act", g)
        st = self.nth("Act", j)
        if self.nth("Chk", st) == -n:
            return st
        return self.nth("Act", g)


def closure(A):
    toks = A.look_toks()
    acts = {(s, t): A.action(s, t) for s in range(A.NS) for t in toks}
    edges = set()
    pred = {}

    def add(s, t):
        if (s, t) not in edges:
            edges.add((s, t))
            pred.setdefault(t, set()).add(s)
            return True
        return False

    def back(sk, k):
        cur = {sk}
        for _ in range(k):
            nxt = set()
            for x in cur:
                nxt |= pred.get(x, set())
            cur = nxt
        return cur

    changed = True
    while changed:
        changed = False
        for s in range(A.NS):           # every state of the table, reachable or not
            for t in toks:
                a = acts[(s, t)]
                if a[0] == "shift":
                    if 0 <= a[1] < A.NS and add(s, a[1]):
                        changed = True
                elif a[0] == "reduce":
                    p = a[1]
                    k = max(A.nth("R2", p), 0)
                    for s0 in back(s, k):
                        g = A.goto(s0, p)
                        if 0 <= g < A.NS and add(s0, g):
                            changed = True
    return toks, acts, edges, pred


def paths(pred, sk, k):
    """all backward paths [sk, ..., s0] (top first) of length k+1 in the edge set"""
    res = [[sk]]
    for _ in range(k):
        res = [r + [p] for r in res for p in sorted(pred.get(r[-1], ()))]
    return res


def weights(A, toks, acts, pred):
    try:
        import z3
    except ImportError:
        return None, "z3 not importable"
    NS = A.NS
    wi = [z3.Int("wi%d" % s) for s in range(NS)]
    wt = [z3.Int("wt%d" % s) for s in range(NS)]
    S = z3.Optimize()
    S.set("timeout", 120000)
    for s in range(NS):
        S.add(wi[s] >= 0, wt[s] >= 0)
    seen = set()
    for s in range(NS):
        for p in sorted({acts[(s, t)][1] for t in toks if acts[(s, t)][0] == "reduce"}):
            k = max(A.nth("R2", p), 0)
            for path in paths(pred, s, k):     # path = [sk ... s0], top first
                key = (tuple(path), p)
                if key in seen:
                    continue
                seen.add(key)
                s0 = path[-1]
                g = A.goto(s0, p)
                if not (0 <= g < NS):
                    continue
                # Phi([g; s0]) + 1 <= Phi(path)   (common tail below s0 cancels)
                lhs = wt[g] + wi[s0] + 1
                rhs = wt[path[0]] + sum(wi[x] for x in path[1:])
                S.add(lhs <= rhs)
    S.minimize(sum(wt) + sum(wi))
    r = S.check()
    if r != z3.sat:
        return None, "z3: %s (no weight certificate: the automaton may loop on reductions)" % r
    m = S.model()
    return ([m.eval(x, model_completion=True).as_long() for x in wi],
            [m.eval(x, model_completion=True).as_long() for x in wt]), None


def rhs_table(A, toks, acts, pred):
    """right-hand side of each production: accessing symbols along one backward path (Coq checks all agree)"""
    nprod = len(A.T["R2"])
    rhs = [None] * nprod
    for s in range(A.NS):
        for p in sorted({acts[(s, t)][1] for t in toks if acts[(s, t)][0] == "reduce"}):
            if not (0 <= p < nprod) or rhs[p] is not None:
                continue
            k = max(A.nth("R2", p), 0)
            ps = paths(pred, s, k)
            if ps:
                pth = ps[0]
                rhs[p] = [A.nth("Chk", x) for x in reversed(pth[:k])]
    return [r if r is not None else [] for r in rhs]


def rule_heads(ysrc):
    """lhs name of every production of a .y file, in file order (production 1 first).  DISPLAY ONLY
    (names of the nonterminals in the printed grammar); nothing in the proofs depends on it."""
    parts = ysrc.split("\n%%")
    if len(parts) < 2:
        return []
    body = parts[1]
    heads, i, n, depth = [], 0, len(body), 0
    cur = None
    expect_head = True
    tok = ""
    while i < n:
        c = body[i]
        if body.startswith("/*", i):
            j = body.find("*/", i + 2)
            i = n if j < 0 else j + 2
            continue
        if body.startswith("//", i):
            j = body.find("\n", i)
            i = n if j < 0 else j
            continue
        if c in "\"'`":
            j = i + 1
            while j < n and body[j] != c:
                j += 2 if body[j] == "\\" and c != "`" else 1
            i = j + 1
            continue
        if c == "{":
            depth += 1
        elif c == "}":
            depth -= 1
        elif depth == 0:
            if c.isalnum() or c == "_":
                j = i
                while j < n and (body[j].isalnum() or body[j] == "_"):
                    j += 1
                word = body[i:j]
                k = j
                while k < n and body[k] in " \t\r\n":
                    k += 1
                if expect_head and k < n and body[k] == ":":
                    cur = word
                    heads.append(cur)
                    expect_head = False
                    i = k + 1
                    continue
                i = j
                continue
            if c == "|" and cur is not None:
                heads.append(cur)
            elif c == ";":
                expect_head = True
        i += 1
    return heads


def zlist(l):
    return "[" + "; ".join(("(%d)" % x) if x < 0 else str(x) for x in l) + "]"


def generate(src, digest=None, ysrc=None):
    T = parse_tables(src)
    A = Automaton(T)
    toks, acts, edges, pred = closure(A)
    w, err = weights(A, toks, acts, pred)
    out = []
    out.append("(* GENERATED by translate/lrcert.py from /repo/parser/parser.y.go. Do not edit.")
    out.append("   UNTRUSTED certificate: re-checked by computation in proofs/LRCertInst.v.")
    out.append("   digest: %s *)" % (digest or tables_digest(T)))
    out.append("Require Import Grits.Base.")
    out.append("Local Open Scope Z_scope.")
    out.append("")
    if w is None:
        out.append("(* NO CERTIFICATE: %s *)" % err)
        wi, wt, maxw = [], [], 0
        es = []
    else:
        wi, wt = w
        maxw = max(wi + wt + [0])
        es = sorted(edges)
    out.append("(* reachable edges of the automaton: (s, t) = state t may sit directly above state s *)")
    out.append("Definition tE : list (Z * Z) := [%s]." % "; ".join("(%d, %d)" % e for e in es))
    out.append("")
    out.append("Definition wIn : list Z := %s." % zlist(wi))
    out.append("")
    out.append("Definition wTop : list Z := %s." % zlist(wt))
    out.append("")
    out.append("Definition maxW : Z := %d." % maxw)
    out.append("")
    out.append("(* right-hand sides of the productions, read off the accessing symbols (token numbers > 0,")
    out.append("   nonterminals < 0) of the states along a backward path; index = production number *)")
    rhs = rhs_table(A, toks, acts, pred)
    out.append("Definition tRhs : list (list Z) := [%s]." % "; ".join(zlist(r) for r in rhs))
    out.append("")
    names = {}
    heads = rule_heads(ysrc) if ysrc else []
    if len(heads) == len(T["R1"]) - 1:
        for p, h in enumerate(heads, 1):
            names.setdefault(T["R1"][p], h)
    out.append("(* DISPLAY ONLY: names of the nonterminals (rule heads of parser.y in file order), used to")
    out.append("   print the recovered grammar; no theorem depends on it *)")
    out.append("Definition tNtNames : list (Z * string) := [%s]." % "; ".join('(%d, "%s")' % (k, v) for k, v in sorted(names.items())))
    out.append("")
    return "\n".join(out) + "\n"


if __name__ == "__main__":
    import os
    yp = sys.argv[1][:-3] if sys.argv[1].endswith(".y.go") else None
    ysrc = open(yp).read() if yp and os.path.exists(yp) else None
    sys.stdout.write(generate(open(sys.argv[1]).read(), sys.argv[2] if len(sys.argv) > 2 else None, ysrc))
